// Package seqmc is the explicit-state engine (E2): breadth-first search over operation
// sequences applied to fresh real objects, deduplicated by a canonical state key.
package seqmc

import (
	"runtime"
	"sync"
	"sync/atomic"
)

// StepFunc builds a fresh real instance, applies path and returns the canonical key of
// the reached state. ok=false means the last op of path is not enabled in the state
// reached by path[:len-1] (the transition does not exist). The oracle for the last op
// is evaluated inside StepFunc (earlier ops were checked when that prefix was visited).
// stop=true means the state is terminal (do not expand; e.g. a violation was reported
// and the object is no longer trustworthy).
type StepFunc func(path []int) (key string, ok bool, stop bool)

type Stats struct {
	States         int
	Transitions    int
	DepthCompleted int
	Exhaustive     bool // frontier emptied: the whole reachable space was enumerated
	CapHit         string
	SamplePaths    [][]int
}

type Config struct {
	NumOps    int
	MaxDepth  int
	MaxStates int // 0 = unlimited
	Workers   int
}

// BFS explores level by level. The initial state is the empty path.
func BFS(cfg Config, step StepFunc) Stats {
	if cfg.Workers <= 0 {
		cfg.Workers = runtime.NumCPU()
	}
	var st Stats
	seen := newShardedSet()
	k0, _, _ := step(nil)
	seen.add(k0)
	st.States = 1
	frontier := [][]int{{}}
	var transitions int64
	for depth := 0; depth < cfg.MaxDepth && len(frontier) > 0; depth++ {
		var next [][]int
		var mu sync.Mutex
		var wg sync.WaitGroup
		idx := int64(-1)
		for w := 0; w < cfg.Workers; w++ {
			wg.Add(1)
			go func() {
				defer wg.Done()
				var local [][]int
				for {
					i := int(atomic.AddInt64(&idx, 1))
					if i >= len(frontier) {
						break
					}
					base := frontier[i]
					for op := 0; op < cfg.NumOps; op++ {
						path := make([]int, len(base)+1)
						copy(path, base)
						path[len(base)] = op
						key, ok, stop := step(path)
						if !ok {
							continue
						}
						atomic.AddInt64(&transitions, 1)
						if seen.add(key) && !stop {
							local = append(local, path)
						}
					}
				}
				mu.Lock()
				next = append(next, local...)
				mu.Unlock()
			}()
		}
		wg.Wait()
		st.DepthCompleted = depth + 1
		st.States = seen.len()
		if len(next) > 0 && len(st.SamplePaths) < 6 {
			st.SamplePaths = append(st.SamplePaths, next[len(next)/2])
		}
		frontier = next
		if cfg.MaxStates > 0 && st.States >= cfg.MaxStates && len(frontier) > 0 {
			st.CapHit = "max_states"
			break
		}
	}
	st.Transitions = int(transitions)
	st.States = seen.len()
	st.Exhaustive = len(frontier) == 0
	if !st.Exhaustive && st.CapHit == "" {
		st.CapHit = "max_depth"
	}
	return st
}

type shardedSet struct {
	shards [64]struct {
		mu sync.Mutex
		m  map[string]struct{}
	}
}

func newShardedSet() *shardedSet {
	s := &shardedSet{}
	for i := range s.shards {
		s.shards[i].m = map[string]struct{}{}
	}
	return s
}

func (s *shardedSet) add(k string) bool {
	h := uint32(2166136261)
	for i := 0; i < len(k); i++ {
		h = (h ^ uint32(k[i])) * 16777619
	}
	sh := &s.shards[h%64]
	sh.mu.Lock()
	defer sh.mu.Unlock()
	if _, ok := sh.m[k]; ok {
		return false
	}
	sh.m[k] = struct{}{}
	return true
}

func (s *shardedSet) len() int {
	n := 0
	for i := range s.shards {
		s.shards[i].mu.Lock()
		n += len(s.shards[i].m)
		s.shards[i].mu.Unlock()
	}
	return n
}
