package seqmc

// Chooser enumerates a finite choice tree by stateless depth-first search: the body is
// re-run from scratch for every leaf; Choose replays the current prefix and takes
// branch 0 beyond it.
type Chooser struct {
	prefix []int
	taken  []int
	widths []int
}

// Choose returns a value in [0,n).
func (c *Chooser) Choose(n int) int {
	if n <= 0 {
		panic("Choose(0)")
	}
	i := len(c.taken)
	v := 0
	if i < len(c.prefix) {
		v = c.prefix[i]
		if v >= n {
			panic("seqmc: choice tree is not deterministic (replayed choice out of range)")
		}
	}
	c.taken = append(c.taken, v)
	c.widths = append(c.widths, n)
	return v
}

// Trace returns the choices taken in the current run.
func (c *Chooser) Trace() []int { return append([]int{}, c.taken...) }

// Enumerate runs body once for every leaf of its choice tree and returns the number of
// leaves. body must be deterministic given the choices. If limit > 0 and is reached the
// enumeration stops and complete=false.
func Enumerate(limit int, body func(c *Chooser)) (leaves int, complete bool) {
	var prefix []int
	for {
		c := &Chooser{prefix: prefix}
		body(c)
		leaves++
		// next prefix: deepest position that still has an untried sibling
		i := len(c.taken) - 1
		for i >= 0 && c.taken[i]+1 >= c.widths[i] {
			i--
		}
		if i < 0 {
			return leaves, true
		}
		if limit > 0 && leaves >= limit {
			return leaves, false
		}
		prefix = append(append([]int{}, c.taken[:i]...), c.taken[i]+1)
	}
}

// FirstWidth returns the width of the first choice point of the last run (0 if none).
func (c *Chooser) FirstWidth() int {
	if len(c.widths) == 0 {
		return 0
	}
	return c.widths[0]
}

// EnumerateFrom enumerates only the sub-tree below the fixed choice prefix.
func EnumerateFrom(fixed []int, limit int, body func(c *Chooser)) (leaves int, complete bool) {
	prefix := append([]int{}, fixed...)
	for {
		c := &Chooser{prefix: prefix}
		body(c)
		leaves++
		i := len(c.taken) - 1
		for i >= len(fixed) && c.taken[i]+1 >= c.widths[i] {
			i--
		}
		if i < len(fixed) {
			return leaves, true
		}
		if limit > 0 && leaves >= limit {
			return leaves, false
		}
		prefix = append(append([]int{}, c.taken[:i]...), c.taken[i]+1)
	}
}
