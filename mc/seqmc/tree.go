package seqmc

// Chooser enumerates a finite choice tree by stateless depth-first search: the body is
// re-run from scratch for every leaf; Choose replays the current prefix and takes
// branch 0 beyond it.
type Chooser struct {
	prefix []int
	taken  []int
	widths []int
}

// Choose returns a value in [0,n).
func (c *Chooser) Choose(n int) int {
	if n <= 0 {
		panic("Choose(0)")
	}
	i := len(c.taken)
	v := 0
	if i < len(c.prefix) {
		v = c.prefix[i]
		if v >= n {
			panic("seqmc: choice tree is not deterministic (replayed choice out of range)")
		}
	}
	c.taken = append(c.taken, v)
	c.widths = append(c.widths, n)
	return v
}

// Trace returns the choices taken in the current run.
func (c *Chooser) Trace() []int { return append([]int{}, c.taken...) }

// Enumerate runs body once for every leaf of its choice tree and returns the number of
// leaves. body must be deterministic given the choices. If limit > 0 and is reached the
// enumeration stops and complete=false.
func Enumerate(limit int, body func(c *Chooser)) (leaves int, complete bool) {
	var prefix []int
	for {
		c := &Chooser{prefix: prefix}
		body(c)
		leaves++
		// next prefix: deepest position that still has an untried sibling
		i := len(c.taken) - 1
		for i >= 0 && c.taken[i]+1 >= c.widths[i] {
			i--
		}
		if i < 0 {
			return leaves, true
		}
		if limit > 0 && leaves >= limit {
			return leaves, false
		}
		prefix = append(append([]int{}, c.taken[:i]...), c.taken[i]+1)
	}
}
