module verifmc

go 1.21

require go.brendoncarroll.net/p2p v0.0.0

require (
	github.com/anishathalye/porcupine v1.3.0
	github.com/pkg/errors v0.9.1 // indirect
	go.brendoncarroll.net/stdctx v0.0.0-20241118190518-40d09f4d11e7 // indirect
	go.brendoncarroll.net/tai64 v0.0.0-20241118171318-6e12d283d5e4 // indirect
	go.uber.org/atomic v1.7.0 // indirect
	go.uber.org/multierr v1.6.0 // indirect
	go.uber.org/zap v1.24.0 // indirect
	golang.org/x/exp v0.0.0-20230522175609-2e198f4a06a1 // indirect
)

replace go.brendoncarroll.net/p2p => /repo
