// Package vatomic replaces sync/atomic in instrumented code: every atomic operation is
// preceded by a scheduling point and then performed with the real primitive.
package vatomic

import (
	"sync/atomic"

	"verifmc/vrt"
)

func AddUint32(p *uint32, d uint32) uint32 {
	vrt.PointAlways("atomic.AddUint32")
	return atomic.AddUint32(p, d)
}
func AddUint64(p *uint64, d uint64) uint64 {
	vrt.PointAlways("atomic.AddUint64")
	return atomic.AddUint64(p, d)
}
func AddInt32(p *int32, d int32) int32 {
	vrt.PointAlways("atomic.AddInt32")
	return atomic.AddInt32(p, d)
}
func AddInt64(p *int64, d int64) int64 {
	vrt.PointAlways("atomic.AddInt64")
	return atomic.AddInt64(p, d)
}
func LoadUint32(p *uint32) uint32 { vrt.PointAlways("atomic.LoadUint32"); return atomic.LoadUint32(p) }
func LoadUint64(p *uint64) uint64 { vrt.PointAlways("atomic.LoadUint64"); return atomic.LoadUint64(p) }
func LoadInt32(p *int32) int32    { vrt.PointAlways("atomic.LoadInt32"); return atomic.LoadInt32(p) }
func LoadInt64(p *int64) int64    { vrt.PointAlways("atomic.LoadInt64"); return atomic.LoadInt64(p) }
func StoreUint32(p *uint32, v uint32) {
	vrt.PointAlways("atomic.StoreUint32")
	atomic.StoreUint32(p, v)
}
func StoreUint64(p *uint64, v uint64) {
	vrt.PointAlways("atomic.StoreUint64")
	atomic.StoreUint64(p, v)
}
func StoreInt32(p *int32, v int32) { vrt.PointAlways("atomic.StoreInt32"); atomic.StoreInt32(p, v) }
func StoreInt64(p *int64, v int64) { vrt.PointAlways("atomic.StoreInt64"); atomic.StoreInt64(p, v) }
func CompareAndSwapUint32(p *uint32, o, n uint32) bool {
	vrt.PointAlways("atomic.CAS32")
	return atomic.CompareAndSwapUint32(p, o, n)
}
func CompareAndSwapUint64(p *uint64, o, n uint64) bool {
	vrt.PointAlways("atomic.CAS64")
	return atomic.CompareAndSwapUint64(p, o, n)
}
func CompareAndSwapInt32(p *int32, o, n int32) bool {
	vrt.PointAlways("atomic.CAS32")
	return atomic.CompareAndSwapInt32(p, o, n)
}

type Int32 struct{ v atomic.Int32 }

func (i *Int32) Add(d int32) int32 { vrt.PointAlways("atomic.Int32.Add"); return i.v.Add(d) }
func (i *Int32) Load() int32       { vrt.PointAlways("atomic.Int32.Load"); return i.v.Load() }
func (i *Int32) Store(x int32)     { vrt.PointAlways("atomic.Int32.Store"); i.v.Store(x) }

type Int64 struct{ v atomic.Int64 }

func (i *Int64) Add(d int64) int64 { vrt.PointAlways("atomic.Int64.Add"); return i.v.Add(d) }
func (i *Int64) Load() int64       { vrt.PointAlways("atomic.Int64.Load"); return i.v.Load() }
func (i *Int64) Store(x int64)     { vrt.PointAlways("atomic.Int64.Store"); i.v.Store(x) }

type Uint32 struct{ v atomic.Uint32 }

func (i *Uint32) Add(d uint32) uint32 { vrt.PointAlways("atomic.Uint32.Add"); return i.v.Add(d) }
func (i *Uint32) Load() uint32        { vrt.PointAlways("atomic.Uint32.Load"); return i.v.Load() }
func (i *Uint32) Store(x uint32)      { vrt.PointAlways("atomic.Uint32.Store"); i.v.Store(x) }

type Uint64 struct{ v atomic.Uint64 }

func (i *Uint64) Add(d uint64) uint64 { vrt.PointAlways("atomic.Uint64.Add"); return i.v.Add(d) }
func (i *Uint64) Load() uint64        { vrt.PointAlways("atomic.Uint64.Load"); return i.v.Load() }
func (i *Uint64) Store(x uint64)      { vrt.PointAlways("atomic.Uint64.Store"); i.v.Store(x) }

type Bool struct{ v atomic.Bool }

func (b *Bool) Load() bool   { vrt.PointAlways("atomic.Bool.Load"); return b.v.Load() }
func (b *Bool) Store(x bool) { vrt.PointAlways("atomic.Bool.Store"); b.v.Store(x) }
