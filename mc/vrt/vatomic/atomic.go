// Package vatomic replaces sync/atomic in instrumented code: every atomic operation is
// preceded by a scheduling point, attributed to the happens-before cell of the object it
// touches, and then performed with the real primitive.
package vatomic

import (
	"sync/atomic"
	"unsafe"

	"verifmc/vrt"
)

//go:norace
func pt(p unsafe.Pointer, desc string) {
	x := vrt.Cur()
	if x == nil || x.Aborting() {
		return
	}
	x.Yield(nil, desc)
	x.Touch(x.CellFor(uintptr(p)), 0xa70)
}

//go:norace
func AddUint32(p *uint32, d uint32) uint32 {
	pt(unsafe.Pointer(p), "atomic.AddUint32")
	return atomic.AddUint32(p, d)
}

//go:norace
func LoadUint32(p *uint32) uint32 {
	pt(unsafe.Pointer(p), "atomic.LoadUint32")
	return atomic.LoadUint32(p)
}

//go:norace
func StoreUint32(p *uint32, v uint32) {
	pt(unsafe.Pointer(p), "atomic.StoreUint32")
	atomic.StoreUint32(p, v)
}

//go:norace
func SwapUint32(p *uint32, v uint32) uint32 {
	pt(unsafe.Pointer(p), "atomic.SwapUint32")
	return atomic.SwapUint32(p, v)
}

//go:norace
func CompareAndSwapUint32(p *uint32, o, n uint32) bool {
	pt(unsafe.Pointer(p), "atomic.CompareAndSwapUint32")
	return atomic.CompareAndSwapUint32(p, o, n)
}

type Uint32 struct{ v atomic.Uint32 }

//go:norace
func (i *Uint32) Add(d uint32) uint32 {
	pt(unsafe.Pointer(i), "atomic.Uint32.Add")
	return i.v.Add(d)
}

//go:norace
func (i *Uint32) Load() uint32 {
	pt(unsafe.Pointer(i), "atomic.Uint32.Load")
	return i.v.Load()
}

//go:norace
func (i *Uint32) Store(x uint32) {
	pt(unsafe.Pointer(i), "atomic.Uint32.Store")
	i.v.Store(x)
}

//go:norace
func (i *Uint32) CompareAndSwap(o, n uint32) bool {
	pt(unsafe.Pointer(i), "atomic.Uint32.CompareAndSwap")
	return i.v.CompareAndSwap(o, n)
}

//go:norace
func AddUint64(p *uint64, d uint64) uint64 {
	pt(unsafe.Pointer(p), "atomic.AddUint64")
	return atomic.AddUint64(p, d)
}

//go:norace
func LoadUint64(p *uint64) uint64 {
	pt(unsafe.Pointer(p), "atomic.LoadUint64")
	return atomic.LoadUint64(p)
}

//go:norace
func StoreUint64(p *uint64, v uint64) {
	pt(unsafe.Pointer(p), "atomic.StoreUint64")
	atomic.StoreUint64(p, v)
}

//go:norace
func SwapUint64(p *uint64, v uint64) uint64 {
	pt(unsafe.Pointer(p), "atomic.SwapUint64")
	return atomic.SwapUint64(p, v)
}

//go:norace
func CompareAndSwapUint64(p *uint64, o, n uint64) bool {
	pt(unsafe.Pointer(p), "atomic.CompareAndSwapUint64")
	return atomic.CompareAndSwapUint64(p, o, n)
}

type Uint64 struct{ v atomic.Uint64 }

//go:norace
func (i *Uint64) Add(d uint64) uint64 {
	pt(unsafe.Pointer(i), "atomic.Uint64.Add")
	return i.v.Add(d)
}

//go:norace
func (i *Uint64) Load() uint64 {
	pt(unsafe.Pointer(i), "atomic.Uint64.Load")
	return i.v.Load()
}

//go:norace
func (i *Uint64) Store(x uint64) {
	pt(unsafe.Pointer(i), "atomic.Uint64.Store")
	i.v.Store(x)
}

//go:norace
func (i *Uint64) CompareAndSwap(o, n uint64) bool {
	pt(unsafe.Pointer(i), "atomic.Uint64.CompareAndSwap")
	return i.v.CompareAndSwap(o, n)
}

//go:norace
func AddInt32(p *int32, d int32) int32 {
	pt(unsafe.Pointer(p), "atomic.AddInt32")
	return atomic.AddInt32(p, d)
}

//go:norace
func LoadInt32(p *int32) int32 {
	pt(unsafe.Pointer(p), "atomic.LoadInt32")
	return atomic.LoadInt32(p)
}

//go:norace
func StoreInt32(p *int32, v int32) {
	pt(unsafe.Pointer(p), "atomic.StoreInt32")
	atomic.StoreInt32(p, v)
}

//go:norace
func SwapInt32(p *int32, v int32) int32 {
	pt(unsafe.Pointer(p), "atomic.SwapInt32")
	return atomic.SwapInt32(p, v)
}

//go:norace
func CompareAndSwapInt32(p *int32, o, n int32) bool {
	pt(unsafe.Pointer(p), "atomic.CompareAndSwapInt32")
	return atomic.CompareAndSwapInt32(p, o, n)
}

type Int32 struct{ v atomic.Int32 }

//go:norace
func (i *Int32) Add(d int32) int32 {
	pt(unsafe.Pointer(i), "atomic.Int32.Add")
	return i.v.Add(d)
}

//go:norace
func (i *Int32) Load() int32 {
	pt(unsafe.Pointer(i), "atomic.Int32.Load")
	return i.v.Load()
}

//go:norace
func (i *Int32) Store(x int32) {
	pt(unsafe.Pointer(i), "atomic.Int32.Store")
	i.v.Store(x)
}

//go:norace
func (i *Int32) CompareAndSwap(o, n int32) bool {
	pt(unsafe.Pointer(i), "atomic.Int32.CompareAndSwap")
	return i.v.CompareAndSwap(o, n)
}

//go:norace
func AddInt64(p *int64, d int64) int64 {
	pt(unsafe.Pointer(p), "atomic.AddInt64")
	return atomic.AddInt64(p, d)
}

//go:norace
func LoadInt64(p *int64) int64 {
	pt(unsafe.Pointer(p), "atomic.LoadInt64")
	return atomic.LoadInt64(p)
}

//go:norace
func StoreInt64(p *int64, v int64) {
	pt(unsafe.Pointer(p), "atomic.StoreInt64")
	atomic.StoreInt64(p, v)
}

//go:norace
func SwapInt64(p *int64, v int64) int64 {
	pt(unsafe.Pointer(p), "atomic.SwapInt64")
	return atomic.SwapInt64(p, v)
}

//go:norace
func CompareAndSwapInt64(p *int64, o, n int64) bool {
	pt(unsafe.Pointer(p), "atomic.CompareAndSwapInt64")
	return atomic.CompareAndSwapInt64(p, o, n)
}

type Int64 struct{ v atomic.Int64 }

//go:norace
func (i *Int64) Add(d int64) int64 {
	pt(unsafe.Pointer(i), "atomic.Int64.Add")
	return i.v.Add(d)
}

//go:norace
func (i *Int64) Load() int64 {
	pt(unsafe.Pointer(i), "atomic.Int64.Load")
	return i.v.Load()
}

//go:norace
func (i *Int64) Store(x int64) {
	pt(unsafe.Pointer(i), "atomic.Int64.Store")
	i.v.Store(x)
}

//go:norace
func (i *Int64) CompareAndSwap(o, n int64) bool {
	pt(unsafe.Pointer(i), "atomic.Int64.CompareAndSwap")
	return i.v.CompareAndSwap(o, n)
}

type Bool struct{ v atomic.Bool }

//go:norace
func (b *Bool) Load() bool {
	pt(unsafe.Pointer(b), "atomic.Bool.Load")
	return b.v.Load()
}

//go:norace
func (b *Bool) Store(x bool) {
	pt(unsafe.Pointer(b), "atomic.Bool.Store")
	b.v.Store(x)
}
