// Package vchan replaces Go channels in instrumented code. All blocking is expressed as
// enabledness to the vrt scheduler; no logical thread ever blocks natively.
package vchan

import (
	"fmt"
	"reflect"
	"runtime"

	"verifmc/vrt"
)

type dir uint8

const (
	dirRecv dir = iota
	dirSend
)

// waiter is a pending (parked) channel operation of one thread; a select registers one
// waiter per case, all sharing the same group.
type waiter struct {
	g    *group
	idx  int // case index within the select
	dir  dir
	recv func(v any, ok bool) // stores a received value into the waiting case
	val  func() any           // value offered by a waiting sender
}

// group is one blocked thread's set of waiters; done means a partner completed case sel.
type group struct {
	thread int
	done   bool
	sel    int
	hbFrom uint64 // history of the partner that completed this group
	step   int    // step at which the partner completed it
}

type chanCore struct {
	id     int
	name   string
	capa   int
	closed bool
	recvq  []*waiter
	sendq  []*waiter
	hb     uint64
}

// Chan is the shim for chan T.
type Chan[T any] struct {
	core chanCore
	buf  []T
}

// Make replaces make(chan T, n).
func Make[T any](n int) *Chan[T] {
	c := &Chan[T]{}
	c.core.capa = n
	if x := vrt.Cur(); x != nil {
		c.core.id = x.NewObjID()
	}
	return c
}

func (c *Chan[T]) String() string {
	if c == nil {
		return "chan(nil)"
	}
	return fmt.Sprintf("chan#%d", c.core.id)
}

// Case is one arm of a select.
type Case interface {
	cell() *uint64
	ready(self *group) bool
	exec(self *group)           // perform the operation now (must be ready)
	register(g *group, idx int) // enqueue as waiter
	unregister(g *group)        // remove waiters of g
	desc() string
}

// ---- recv case ----

type RecvCase[T any] struct {
	C  *Chan[T]
	V  T
	OK bool
}

func NewRecv[T any](c *Chan[T]) *RecvCase[T] { return &RecvCase[T]{C: c} }

func firstOther(q []*waiter, self *group) *waiter {
	for _, w := range q {
		if w.g != self && !w.g.done {
			return w
		}
	}
	return nil
}

func (r *RecvCase[T]) ready(self *group) bool {
	c := r.C
	if c == nil {
		return false
	}
	return len(c.buf) > 0 || c.core.closed || firstOther(c.core.sendq, self) != nil
}

func (r *RecvCase[T]) exec(self *group) {
	c := r.C
	if len(c.buf) > 0 {
		r.V, r.OK = c.buf[0], true
		var zero T
		c.buf[0] = zero
		c.buf = c.buf[1:]
		// a blocked sender can now move its value into the buffer
		if w := firstOther(c.core.sendq, self); w != nil {
			c.buf = append(c.buf, cast[T](w.val()))
			complete(w)
		}
		return
	}
	if w := firstOther(c.core.sendq, self); w != nil {
		r.V, r.OK = cast[T](w.val()), true
		complete(w)
		return
	}
	if c.core.closed {
		var zero T
		r.V, r.OK = zero, false
		return
	}
	panic("vchan: recv exec on a case that is not ready")
}

func (r *RecvCase[T]) register(g *group, idx int) {
	if r.C == nil {
		return
	}
	r.C.core.recvq = append(r.C.core.recvq, &waiter{g: g, idx: idx, dir: dirRecv, recv: func(v any, ok bool) {
		if ok {
			r.V = cast[T](v)
		}
		r.OK = ok
	}})
}

func (r *RecvCase[T]) unregister(g *group) {
	if r.C != nil {
		r.C.core.recvq = dropGroup(r.C.core.recvq, g)
	}
}

func (r *RecvCase[T]) desc() string  { return "recv " + r.C.String() }
func (r *RecvCase[T]) cell() *uint64 { return &r.C.core.hb }

// ---- send case ----

type SendCase[T any] struct {
	C *Chan[T]
	V T
}

func NewSend[T any](c *Chan[T], v T) *SendCase[T] { return &SendCase[T]{C: c, V: v} }

func (s *SendCase[T]) ready(self *group) bool {
	c := s.C
	if c == nil {
		return false
	}
	return c.core.closed || len(c.buf) < c.core.capa || firstOther(c.core.recvq, self) != nil
}

func (s *SendCase[T]) exec(self *group) {
	c := s.C
	if c.core.closed {
		panic("send on closed channel")
	}
	if w := firstOther(c.core.recvq, self); w != nil && len(c.buf) == 0 {
		w.recv(s.V, true)
		complete(w)
		return
	}
	if len(c.buf) < c.core.capa {
		c.buf = append(c.buf, s.V)
		return
	}
	panic("vchan: send exec on a case that is not ready")
}

func (s *SendCase[T]) register(g *group, idx int) {
	if s.C == nil {
		return
	}
	s.C.core.sendq = append(s.C.core.sendq, &waiter{g: g, idx: idx, dir: dirSend, val: func() any { return s.V }})
}

func (s *SendCase[T]) unregister(g *group) {
	if s.C != nil {
		s.C.core.sendq = dropGroup(s.C.core.sendq, g)
	}
}

func (s *SendCase[T]) desc() string  { return "send " + s.C.String() }
func (s *SendCase[T]) cell() *uint64 { return &s.C.core.hb }

// ---- external (native) channel case: only "closed-style" channels are supported ----

type ExtCase[T any] struct {
	C  <-chan T
	V  T
	OK bool
}

// NewExt wraps a native channel that is not owned by instrumented code (ctx.Done()).
// It is ready iff a non-blocking native receive would succeed on a closed channel.
func NewExt[T any](c <-chan T) *ExtCase[T] { return &ExtCase[T]{C: c} }

func (e *ExtCase[T]) ready(self *group) bool {
	if e.C == nil {
		return false
	}
	// Non-destructive poll: only closed channels are supported (Done-style).
	if ch, ok := any(e.C).(<-chan struct{}); ok {
		select {
		case _, open := <-ch:
			if open {
				panic("vchan: external channel delivered a value; only close-signalled external channels are supported")
			}
			return true
		default:
			return false
		}
	}
	chosen, _, ok := reflect.Select([]reflect.SelectCase{
		{Dir: reflect.SelectRecv, Chan: reflect.ValueOf(e.C)},
		{Dir: reflect.SelectDefault},
	})
	if chosen == 0 && ok {
		panic("vchan: external channel delivered a value; only close-signalled external channels are supported")
	}
	return chosen == 0
}

func (e *ExtCase[T]) exec(self *group)           { var z T; e.V, e.OK = z, false }
func (e *ExtCase[T]) register(g *group, idx int) {}
func (e *ExtCase[T]) unregister(g *group)        {}
func (e *ExtCase[T]) desc() string               { return "recv ext" }
func (e *ExtCase[T]) cell() *uint64              { return &vrt.Cur().CancelCell }

func cast[T any](v any) T {
	if v == nil {
		var z T
		return z
	}
	return v.(T)
}

func dropGroup(q []*waiter, g *group) []*waiter {
	out := q[:0]
	for _, w := range q {
		if w.g != g {
			out = append(out, w)
		}
	}
	return out
}

// complete marks the partner's group as done through waiter w.
func complete(w *waiter) {
	w.g.done = true
	w.g.sel = w.idx
	if x := vrt.Cur(); x != nil {
		w.g.hbFrom = x.HB()
		w.g.step = x.Steps
	}
}

// Select performs a select over cases. It returns the index of the chosen case, or -1
// for the default arm.
func Select(hasDefault bool, cases ...Case) int {
	x := vrt.Cur()
	if x == nil {
		panic("vchan: Select outside a controlled execution")
	}
	if x.Aborting() {
		if hasDefault {
			return -1
		}
		return -2 // no arm: instrumented switch falls through all cases
	}
	g := &group{thread: x.Me().ID}
	for i, c := range cases {
		c.register(g, i)
	}
	descFn := func() string {
		if len(cases) == 1 && !hasDefault {
			return cases[0].desc()
		}
		d := "select{"
		for i, c := range cases {
			if i > 0 {
				d += ","
			}
			d += c.desc()
		}
		if hasDefault {
			d += ",default"
		}
		return d + "}"
	}
	enabled := func() bool {
		if g.done || hasDefault {
			return true
		}
		for _, c := range cases {
			if c.ready(g) {
				return true
			}
		}
		return false
	}
	x.YieldFn(enabled, descFn)
	// we run now
	for _, c := range cases {
		c.unregister(g)
	}
	if g.done {
		// a partner performed the operation for us: absorb its history
		x.Absorb(g.hbFrom)
		x.Absorb(0x5e1 + uint64(g.sel))
		x.Me().LastCommStep = g.step
		return g.sel
	}
	var ready []int
	for i, c := range cases {
		if c.ready(g) {
			ready = append(ready, i)
		}
	}
	if len(ready) == 0 {
		if hasDefault {
			// the default arm was taken because nothing was ready: that observation
			// depends on the state of every channel polled
			for _, c := range cases {
				x.Touch(c.cell(), 0xdef)
			}
			return -1
		}
		panic("vchan: scheduled a select with nothing ready")
	}
	k := 0
	if len(ready) > 1 {
		k = x.Choose(len(ready), nil, "select-arm")
	}
	x.Touch(cases[ready[k]].cell(), 0x5e1+uint64(ready[k]))
	x.Me().LastCommStep = x.Steps
	cases[ready[k]].exec(g)
	return ready[k]
}

// Send replaces `c <- v`.
func (c *Chan[T]) Send(v T) {
	if x := vrt.Cur(); x == nil || x.Aborting() {
		return
	}
	if c == nil {
		blockForever("send on nil channel")
	}
	Select(false, NewSend(c, v))
}

// Recv replaces `<-c`.
func (c *Chan[T]) Recv() T {
	v, _ := c.Recv2()
	return v
}

// Recv2 replaces `v, ok := <-c`.
func (c *Chan[T]) Recv2() (T, bool) {
	var zero T
	if x := vrt.Cur(); x == nil || x.Aborting() {
		return zero, false
	}
	if c == nil {
		blockForever("recv on nil channel")
	}
	r := NewRecv(c)
	Select(false, r)
	return r.V, r.OK
}

// RecvExt replaces `<-ch` on a native close-signalled channel.
func RecvExt[T any](ch <-chan T) {
	if x := vrt.Cur(); x == nil || x.Aborting() {
		return
	}
	Select(false, NewExt(ch))
}

func blockForever(desc string) {
	vrt.Cur().Yield(func() bool { return false }, desc)
}

// Close replaces close(c).
func (c *Chan[T]) Close() {
	x := vrt.Cur()
	if x == nil || x.Aborting() {
		return
	}
	x.Yield(nil, "close "+c.String())
	if c.core.closed {
		panic("close of closed channel")
	}
	c.core.closed = true
	x.Touch(&c.core.hb, 0xc105e)
	// blocked receivers complete with the zero value; blocked senders will panic when run
	for _, w := range c.core.recvq {
		if !w.g.done {
			var zero T
			w.recv(zero, false)
			complete(w)
		}
	}
	c.core.recvq = nil
}

// Len replaces len(c); Cap replaces cap(c). Both are scheduling points.
func (c *Chan[T]) Len() int {
	x := vrt.Cur()
	if x == nil || x.Aborting() {
		return 0
	}
	x.Yield(nil, "len "+c.String())
	x.Touch(&c.core.hb, 0x1e4)
	return len(c.buf)
}

func (c *Chan[T]) Cap() int { return c.core.capa }

// TrySend is a non-blocking send (used by timers: the runtime drops ticks when the
// buffer is full). It is a scheduling point.
func (c *Chan[T]) TrySend(v T) bool {
	x := vrt.Cur()
	if x == nil || x.Aborting() {
		return false
	}
	return Select(true, NewSend(c, v)) == 0
}

// Unreachable is the default arm of every rewritten select: it is only reached while the
// execution is being torn down (Select returns -2), where it unwinds the thread.
func Unreachable() string {
	if x := vrt.Cur(); x != nil && x.Aborting() {
		runtime.Goexit()
	}
	return "vchan: rewritten select fell through"
}
