// Package vchan replaces Go channels in instrumented code. All blocking is expressed as
// enabledness to the vrt scheduler; no logical thread ever blocks natively.
package vchan

import (
	"fmt"
	"reflect"
	"runtime"
	"unsafe"

	"verifmc/vrt"
)

type dir uint8

const (
	dirRecv dir = iota
	dirSend
)

// waiter is a pending (parked) channel operation of one thread; a select registers one
// waiter per case, all sharing the same group.
type waiter struct {
	tok  *byte // released by the parked party when it registered (its clock at park time)
	g    *group
	idx  int // case index within the select
	dir  dir
	recv func(v any, ok bool) // stores a received value into the waiting case
	val  func() any           // value offered by a waiting sender
}

// group is one blocked thread's set of waiters; done means a partner completed case sel.
type group struct {
	thread int
	done   bool
	sel    int
	hbFrom uint64 // history of the partner that completed this group
	step   int    // step at which the partner completed it
	gotTok *byte  // token released by the partner that completed this group
}

type chanCore struct {
	id     int
	name   string
	capa   int
	closed bool
	recvq  []*waiter
	sendq  []*waiter
	hb     uint64
}

// Chan is the shim for chan T.
type Chan[T any] struct {
	core chanCore
	buf  []T
	toks []*byte // one happens-before token per buffered element
	ctok byte    // released by close
}

//go:norace
func newTok() *byte {
	t := new(byte)
	vrt.RaceRelease(unsafe.Pointer(t))
	return t
}

//go:norace
func acq(t *byte) {
	if t != nil {
		vrt.RaceAcquire(unsafe.Pointer(t))
	}
}

// Make replaces make(chan T, n).
//
//go:norace
func Make[T any](n int) *Chan[T] {
	c := &Chan[T]{}
	c.core.capa = n
	if x := vrt.Cur(); x != nil {
		c.core.id = x.NewObjID()
	}
	return c
}

//go:norace
func (c *Chan[T]) String() string {
	if c == nil {
		return "chan(nil)"
	}
	return fmt.Sprintf("chan#%d", c.core.id)
}

// Case is one arm of a select.
type Case interface {
	cell() *uint64
	ready(self *group) bool
	exec(self *group)           // perform the operation now (must be ready)
	register(g *group, idx int) // enqueue as waiter
	unregister(g *group)        // remove waiters of g
	desc() string
}

// ---- recv case ----

type RecvCase[T any] struct {
	C  *Chan[T]
	V  T
	OK bool
}

//go:norace
func NewRecv[T any](c *Chan[T]) *RecvCase[T] { return &RecvCase[T]{C: c} }

//go:norace
func firstOther(q []*waiter, self *group) *waiter {
	for _, w := range q {
		if w.g != self && !w.g.done {
			return w
		}
	}
	return nil
}

//go:norace
func (r *RecvCase[T]) ready(self *group) bool {
	c := r.C
	if c == nil {
		return false
	}
	return len(c.buf) > 0 || c.core.closed || firstOther(c.core.sendq, self) != nil
}

//go:norace
func (r *RecvCase[T]) exec(self *group) {
	c := r.C
	if len(c.buf) > 0 {
		r.V, r.OK = c.buf[0], true
		acq(c.toks[0])
		var zero T
		c.buf[0] = zero
		c.buf, c.toks = c.buf[1:], c.toks[1:]
		// a blocked sender can now move its value into the buffer
		if w := firstOther(c.core.sendq, self); w != nil {
			c.buf = append(c.buf, cast[T](w.val()))
			c.toks = append(c.toks, w.tok)
			complete(w, newTok())
		}
		return
	}
	if w := firstOther(c.core.sendq, self); w != nil {
		r.V, r.OK = cast[T](w.val()), true
		acq(w.tok)
		// the receive happens before the completion of an unbuffered send
		complete(w, newTok())
		return
	}
	if c.core.closed {
		var zero T
		r.V, r.OK = zero, false
		vrt.RaceAcquire(unsafe.Pointer(&c.ctok))
		return
	}
	panic("vchan: recv exec on a case that is not ready")
}

//go:norace
func (r *RecvCase[T]) register(g *group, idx int) {
	if r.C == nil {
		return
	}
	r.C.core.recvq = append(r.C.core.recvq, &waiter{tok: newTok(), g: g, idx: idx, dir: dirRecv, recv: func(v any, ok bool) {
		if ok {
			r.V = cast[T](v)
		}
		r.OK = ok
	}})
}

//go:norace
func (r *RecvCase[T]) unregister(g *group) {
	if r.C != nil {
		r.C.core.recvq = dropGroup(r.C.core.recvq, g)
	}
}

//go:norace
func (r *RecvCase[T]) desc() string { return "recv " + r.C.String() }

//go:norace
func (r *RecvCase[T]) cell() *uint64 { return &r.C.core.hb }

// ---- send case ----

type SendCase[T any] struct {
	C *Chan[T]
	V T
}

//go:norace
func NewSend[T any](c *Chan[T], v T) *SendCase[T] { return &SendCase[T]{C: c, V: v} }

//go:norace
func (s *SendCase[T]) ready(self *group) bool {
	c := s.C
	if c == nil {
		return false
	}
	return c.core.closed || len(c.buf) < c.core.capa || firstOther(c.core.recvq, self) != nil
}

//go:norace
func (s *SendCase[T]) exec(self *group) {
	c := s.C
	if c.core.closed {
		panic("send on closed channel")
	}
	if w := firstOther(c.core.recvq, self); w != nil && len(c.buf) == 0 {
		w.recv(s.V, true)
		if c.core.capa == 0 {
			acq(w.tok) // the parked receive happens before this send completes
		}
		complete(w, newTok())
		return
	}
	if len(c.buf) < c.core.capa {
		c.buf = append(c.buf, s.V)
		c.toks = append(c.toks, newTok())
		return
	}
	panic("vchan: send exec on a case that is not ready")
}

//go:norace
func (s *SendCase[T]) register(g *group, idx int) {
	if s.C == nil {
		return
	}
	s.C.core.sendq = append(s.C.core.sendq, &waiter{tok: newTok(), g: g, idx: idx, dir: dirSend, val: func() any { return s.V }})
}

//go:norace
func (s *SendCase[T]) unregister(g *group) {
	if s.C != nil {
		s.C.core.sendq = dropGroup(s.C.core.sendq, g)
	}
}

//go:norace
func (s *SendCase[T]) desc() string { return "send " + s.C.String() }

//go:norace
func (s *SendCase[T]) cell() *uint64 { return &s.C.core.hb }

// ---- external (native) channel case: only "closed-style" channels are supported ----

type ExtCase[T any] struct {
	C  <-chan T
	V  T
	OK bool
}

// NewExt wraps a native channel that is not owned by instrumented code (ctx.Done()).
// It is ready iff a non-blocking native receive would succeed on a closed channel.
//
//go:norace
func NewExt[T any](c <-chan T) *ExtCase[T] { return &ExtCase[T]{C: c} }

//go:norace
func (e *ExtCase[T]) ready(self *group) bool {
	if e.C == nil {
		return false
	}
	// Non-destructive poll: only closed channels are supported (Done-style). The poll is
	// made by whichever goroutine runs the scheduler, so it must not count as synchronisation.
	vrt.RaceDisable()
	defer vrt.RaceEnable()
	if ch, ok := any(e.C).(<-chan struct{}); ok {
		select {
		case _, open := <-ch:
			if open {
				panic("vchan: external channel delivered a value; only close-signalled external channels are supported")
			}
			return true
		default:
			return false
		}
	}
	chosen, _, ok := reflect.Select([]reflect.SelectCase{
		{Dir: reflect.SelectRecv, Chan: reflect.ValueOf(e.C)},
		{Dir: reflect.SelectDefault},
	})
	if chosen == 0 && ok {
		panic("vchan: external channel delivered a value; only close-signalled external channels are supported")
	}
	return chosen == 0
}

//go:norace
func (e *ExtCase[T]) exec(self *group) {
	var z T
	e.V, e.OK = z, false
	// the real receive, by the receiving goroutine itself: close happens-before it
	select {
	case <-e.C:
	default:
	}
}

//go:norace
func (e *ExtCase[T]) register(g *group, idx int) {}

//go:norace
func (e *ExtCase[T]) unregister(g *group) {}

//go:norace
func (e *ExtCase[T]) desc() string { return "recv ext" }

//go:norace
func (e *ExtCase[T]) cell() *uint64 { return &vrt.Cur().CancelCell }

//go:norace
func cast[T any](v any) T {
	if v == nil {
		var z T
		return z
	}
	return v.(T)
}

//go:norace
func dropGroup(q []*waiter, g *group) []*waiter {
	out := q[:0]
	for _, w := range q {
		if w.g != g {
			out = append(out, w)
		}
	}
	return out
}

// complete marks the partner's group as done through waiter w.
//
//go:norace
func complete(w *waiter, tok *byte) {
	w.g.done = true
	w.g.sel = w.idx
	w.g.gotTok = tok
	if x := vrt.Cur(); x != nil {
		w.g.hbFrom = x.HB()
		w.g.step = x.Steps
	}
}

// selectOp is a parked select (named type: see vrt.Enabler).
type selectOp struct {
	g          *group
	cases      []Case
	hasDefault bool
}

//go:norace
func (o *selectOp) Enabled() bool {
	if o.g.done || o.hasDefault {
		return true
	}
	for _, c := range o.cases {
		if c.ready(o.g) {
			return true
		}
	}
	return false
}

//go:norace
func (o *selectOp) String() string {
	if len(o.cases) == 1 && !o.hasDefault {
		return o.cases[0].desc()
	}
	d := "select{"
	for i, c := range o.cases {
		if i > 0 {
			d += ","
		}
		d += c.desc()
	}
	if o.hasDefault {
		d += ",default"
	}
	return d + "}"
}

// Select performs a select over cases. It returns the index of the chosen case, or -1
// for the default arm.
//
//go:norace
func Select(hasDefault bool, cases ...Case) int {
	x := vrt.Cur()
	if x == nil {
		panic("vchan: Select outside a controlled execution")
	}
	if x.Aborting() {
		if hasDefault {
			return -1
		}
		return -2 // no arm: instrumented switch falls through all cases
	}
	g := &group{thread: x.Me().ID}
	for i, c := range cases {
		c.register(g, i)
	}
	op := &selectOp{g: g, cases: cases, hasDefault: hasDefault}
	x.YieldOp(op, op)
	// we run now
	for _, c := range cases {
		c.unregister(g)
	}
	if g.done {
		// a partner performed the operation for us: absorb its history
		x.Absorb(g.hbFrom)
		x.Absorb(0x5e1 + uint64(g.sel))
		x.Me().LastCommStep = g.step
		acq(g.gotTok)
		return g.sel
	}
	var ready []int
	for i, c := range cases {
		if c.ready(g) {
			ready = append(ready, i)
		}
	}
	if len(ready) == 0 {
		if hasDefault {
			// the default arm was taken because nothing was ready: that observation
			// depends on the state of every channel polled
			for _, c := range cases {
				x.Touch(c.cell(), 0xdef)
			}
			return -1
		}
		panic("vchan: scheduled a select with nothing ready")
	}
	k := 0
	if len(ready) > 1 {
		k = x.Choose(len(ready), nil, "select-arm")
	}
	x.Touch(cases[ready[k]].cell(), 0x5e1+uint64(ready[k]))
	x.Me().LastCommStep = x.Steps
	cases[ready[k]].exec(g)
	return ready[k]
}

// Send replaces `c <- v`.
//
//go:norace
func (c *Chan[T]) Send(v T) {
	if x := vrt.Cur(); x == nil || x.Aborting() {
		return
	}
	if c == nil {
		blockForever("send on nil channel")
	}
	Select(false, NewSend(c, v))
}

// Recv replaces `<-c`.
//
//go:norace
func (c *Chan[T]) Recv() T {
	v, _ := c.Recv2()
	return v
}

// Recv2 replaces `v, ok := <-c`.
//
//go:norace
func (c *Chan[T]) Recv2() (T, bool) {
	var zero T
	if x := vrt.Cur(); x == nil || x.Aborting() {
		return zero, false
	}
	if c == nil {
		blockForever("recv on nil channel")
	}
	r := NewRecv(c)
	Select(false, r)
	return r.V, r.OK
}

// RecvExt replaces `<-ch` on a native close-signalled channel.
//
//go:norace
func RecvExt[T any](ch <-chan T) {
	if x := vrt.Cur(); x == nil || x.Aborting() {
		return
	}
	Select(false, NewExt(ch))
}

//go:norace
func blockForever(desc string) {
	vrt.Cur().YieldOp(vrt.Never, strDesc(desc))
}

type strDesc string

//go:norace
func (s strDesc) String() string { return string(s) }

// Close replaces close(c).
//
//go:norace
func (c *Chan[T]) Close() {
	x := vrt.Cur()
	if x == nil || x.Aborting() {
		return
	}
	x.Yield(nil, "close "+c.String())
	if c.core.closed {
		panic("close of closed channel")
	}
	c.core.closed = true
	x.Touch(&c.core.hb, 0xc105e)
	vrt.RaceRelease(unsafe.Pointer(&c.ctok))
	// blocked receivers complete with the zero value; blocked senders will panic when run
	for _, w := range c.core.recvq {
		if !w.g.done {
			var zero T
			w.recv(zero, false)
			complete(w, &c.ctok)
		}
	}
	c.core.recvq = nil
}

// Len replaces len(c); Cap replaces cap(c). Both are scheduling points.
//
//go:norace
func (c *Chan[T]) Len() int {
	x := vrt.Cur()
	if x == nil || x.Aborting() {
		return 0
	}
	x.Yield(nil, "len "+c.String())
	x.Touch(&c.core.hb, 0x1e4)
	return len(c.buf)
}

//go:norace
func (c *Chan[T]) Cap() int { return c.core.capa }

// TrySend is a non-blocking send (used by timers: the runtime drops ticks when the
// buffer is full). It is a scheduling point.
//
//go:norace
func (c *Chan[T]) TrySend(v T) bool {
	x := vrt.Cur()
	if x == nil || x.Aborting() {
		return false
	}
	return Select(true, NewSend(c, v)) == 0
}

// Unreachable is the default arm of every rewritten select: it is only reached while the
// execution is being torn down (Select returns -2), where it unwinds the thread.
//
//go:norace
func Unreachable() string {
	if x := vrt.Cur(); x != nil && x.Aborting() {
		runtime.Goexit()
	}
	return "vchan: rewritten select fell through"
}
