package vrt

import (
	"fmt"
	"sort"
)

// MapKeys returns the keys of m in a deterministic order (map iteration order is
// nondeterminism the explorer must own). With Exec.MapReverse the order is reversed,
// which harnesses use as a second explored order.
//
//go:norace
func MapKeys[M ~map[K]V, K comparable, V any](m M) []K {
	keys := make([]K, 0, len(m))
	for k := range m {
		keys = append(keys, k)
	}
	strs := make(map[K]string, len(keys))
	for _, k := range keys {
		strs[k] = fmt.Sprintf("%v", k)
	}
	sort.Slice(keys, func(i, j int) bool { return strs[keys[i]] < strs[keys[j]] })
	if x := cur; x != nil && x.MapReverse {
		for i, j := 0, len(keys)-1; i < j; i, j = i+1, j-1 {
			keys[i], keys[j] = keys[j], keys[i]
		}
	}
	return keys
}
