// Package vctx replaces context.WithTimeout / WithDeadline in instrumented code: the
// deadline is measured on the virtual clock and its expiry is a virtual timer, so no
// native timer goroutine ever cancels a context behind the scheduler's back.
package vctx

import (
	"context"
	"time"

	"verifmc/vrt"
	"verifmc/vrt/vtime"
)

type deadlineCtx struct {
	context.Context // a cancelCtx child of the parent: Done/Value delegate to it
	deadline        time.Time
	timedOut        bool
}

//go:norace
func (c *deadlineCtx) Deadline() (time.Time, bool) { return c.deadline, true }

//go:norace
func (c *deadlineCtx) Err() error {
	err := c.Context.Err()
	if err != nil && c.timedOut {
		return context.DeadlineExceeded
	}
	return err
}

//go:norace
func WithDeadline(parent context.Context, d time.Time) (context.Context, context.CancelFunc) {
	x := vrt.Cur()
	if x == nil {
		return context.WithDeadline(parent, d)
	}
	if cur, ok := parent.Deadline(); ok && cur.Before(d) {
		// the parent's deadline is already sooner
		return WithCancel(parent)
	}
	inner, cancel := context.WithCancel(parent)
	c := &deadlineCtx{Context: inner, deadline: d}
	dur := d.Sub(vtime.Now())
	if dur <= 0 {
		c.timedOut = true
		x.Touch(&x.CancelCell, 0xdead11e)
		cancel()
		return c, func() {}
	}
	h := x.AfterFunc(dur, "ctx-deadline", func() {
		if inner.Err() == nil {
			c.timedOut = true
			if x2 := vrt.Cur(); x2 != nil && !x2.Aborting() {
				x2.Touch(&x2.CancelCell, 0xdead11e)
			}
			cancel()
		}
	})
	return c, func() {
		if x2 := vrt.Cur(); x2 != nil && !x2.Aborting() {
			h.Stop()
			x2.Touch(&x2.CancelCell, 0xca9ce1)
		}
		cancel()
	}
}

// WithCancel wraps context.WithCancel so that cancellation is a hooked operation: the
// canceller's history flows into the shared cancel cell that every reader of a Done
// channel absorbs.
//
//go:norace
func WithCancel(parent context.Context) (context.Context, context.CancelFunc) {
	ctx, cancel := context.WithCancel(parent)
	return ctx, func() {
		if x := vrt.Cur(); x != nil && !x.Aborting() {
			x.Touch(&x.CancelCell, 0xca9ce1)
		}
		cancel()
	}
}

//go:norace
func WithTimeout(parent context.Context, d time.Duration) (context.Context, context.CancelFunc) {
	return WithDeadline(parent, vtime.Now().Add(d))
}
