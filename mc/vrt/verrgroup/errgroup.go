// Package verrgroup replaces golang.org/x/sync/errgroup in instrumented code.
package verrgroup

import (
	"context"

	"verifmc/vrt"
	"verifmc/vrt/vctx"
	"verifmc/vrt/vsync"
)

type Group struct {
	cancel func()
	wg     vsync.WaitGroup
	once   bool
	err    error
}

//go:norace
func WithContext(ctx context.Context) (*Group, context.Context) {
	ctx, cancel := vctx.WithCancel(ctx)
	return &Group{cancel: cancel}, ctx
}

//go:norace
func (g *Group) Wait() error {
	g.wg.Wait()
	if g.cancel != nil {
		g.cancel()
	}
	return g.err
}

//go:norace
func (g *Group) Go(f func() error) {
	g.wg.Add(1)
	vrt.Go("errgroup", func() {
		defer g.wg.Done()
		if err := f(); err != nil {
			if !g.once {
				g.once = true
				g.err = err
				if g.cancel != nil {
					g.cancel()
				}
			}
		}
	})
}
