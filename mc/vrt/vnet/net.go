// Package vnet replaces package net in instrumented code (the subset s/udpswarm uses): UDP
// sockets live on a per-execution virtual network, and reading, writing, closing and
// deadline expiry are scheduling points of the controlled scheduler. Outside an execution
// the calls go to the real package net.
package vnet

import (
	"fmt"
	"net"
	"net/netip"
	"os"
	"time"

	"verifmc/vrt"
)

type (
	IP         = net.IP
	IPAddr     = net.IPAddr
	IPNet      = net.IPNet
	UDPAddr    = net.UDPAddr
	Addr       = net.Addr
	Error      = net.Error
	OpError    = net.OpError
	PacketConn = net.PacketConn
)

var ErrClosed = net.ErrClosed

func JoinHostPort(host, port string) string { return net.JoinHostPort(host, port) }
func SplitHostPort(hostport string) (host, port string, err error) {
	return net.SplitHostPort(hostport)
}
func ParseIP(s string) IP     { return net.ParseIP(s) }
func IPv4(a, b, c, d byte) IP { return net.IPv4(a, b, c, d) }
func ResolveUDPAddr(network, address string) (*UDPAddr, error) {
	return net.ResolveUDPAddr(network, address)
}
func UDPAddrFromAddrPort(addr netip.AddrPort) *UDPAddr { return net.UDPAddrFromAddrPort(addr) }

// Datagram is one packet on the virtual network.
type Datagram struct {
	From UDPAddr
	Data []byte
}

// Network is the virtual UDP network of one execution.
type Network struct {
	conns    map[int]*UDPConn // by port
	nextPort int
	// Policy, if set, decides how many copies of a datagram reach the destination socket
	// (0 drops it). It runs in the sender's thread.
	Policy func(from, to *UDPAddr, data []byte) int
	Sent   int
}

// Of returns the virtual network of execution x.
//
//go:norace
func Of(x *vrt.Exec) *Network {
	if x.Ext == nil {
		x.Ext = map[string]any{}
	}
	n, _ := x.Ext["vnet"].(*Network)
	if n == nil {
		n = &Network{conns: map[int]*UDPConn{}, nextPort: 40000}
		x.Ext["vnet"] = n
	}
	return n
}

// UDPConn mirrors *net.UDPConn.
type UDPConn struct {
	real *net.UDPConn // outside an execution

	nw       *Network
	laddr    UDPAddr
	queue    []Datagram
	closed   bool
	deadline time.Time // read deadline; zero = none
	hb       uint64
}

//go:norace
func ListenUDP(network string, laddr *UDPAddr) (*UDPConn, error) {
	x := vrt.Cur()
	if x == nil {
		c, err := net.ListenUDP(network, laddr)
		if err != nil {
			return nil, err
		}
		return &UDPConn{real: c}, nil
	}
	nw := Of(x)
	la := UDPAddr{IP: net.IPv4(127, 0, 0, 1)}
	if laddr != nil {
		la = *laddr
		if la.IP == nil {
			la.IP = net.IPv4zero
		}
	}
	if la.Port == 0 {
		for nw.conns[nw.nextPort] != nil {
			nw.nextPort++
		}
		la.Port = nw.nextPort
		nw.nextPort++
	} else if nw.conns[la.Port] != nil {
		return nil, &net.OpError{Op: "listen", Net: "udp", Addr: &la, Err: fmt.Errorf("bind: address already in use")}
	}
	c := &UDPConn{nw: nw, laddr: la}
	nw.conns[la.Port] = c
	return c, nil
}

//go:norace
func (c *UDPConn) LocalAddr() Addr {
	if c.real != nil {
		return c.real.LocalAddr()
	}
	a := c.laddr
	return &a
}

type readable struct {
	c *UDPConn
	x *vrt.Exec
}

//go:norace
func (r readable) Enabled() bool {
	c := r.c
	return len(c.queue) > 0 || c.closed || c.expired(r.x)
}

//go:norace
func (r readable) String() string { return fmt.Sprintf("ReadFromUDP udp:%d", r.c.laddr.Port) }

//go:norace
func (c *UDPConn) expired(x *vrt.Exec) bool {
	return !c.deadline.IsZero() && !x.WallNow().Before(c.deadline)
}

//go:norace
func (c *UDPConn) closedErr(op string) error {
	a := c.laddr
	return &net.OpError{Op: op, Net: "udp", Source: &a, Err: net.ErrClosed}
}

//go:norace
func (c *UDPConn) ReadFromUDP(b []byte) (int, *UDPAddr, error) {
	if c.real != nil {
		return c.real.ReadFromUDP(b)
	}
	x := vrt.Cur()
	if x == nil || x.Aborting() {
		return 0, nil, c.closedErr("read")
	}
	x.YieldOp(readable{c, x}, readable{c, x})
	if x.Aborting() {
		return 0, nil, c.closedErr("read")
	}
	x.Touch(&c.hb, 0x4e01)
	switch {
	case c.closed:
		return 0, nil, c.closedErr("read")
	case len(c.queue) > 0:
		d := c.queue[0]
		c.queue = c.queue[1:]
		n := copy(b, d.Data)
		from := d.From
		return n, &from, nil
	default:
		a := c.laddr
		return 0, nil, &net.OpError{Op: "read", Net: "udp", Source: &a, Err: os.ErrDeadlineExceeded}
	}
}

//go:norace
func (c *UDPConn) ReadFrom(b []byte) (int, Addr, error) {
	n, a, err := c.ReadFromUDP(b)
	if a == nil {
		return n, nil, err
	}
	return n, a, err
}

//go:norace
func (c *UDPConn) ReadFromUDPAddrPort(b []byte) (int, netip.AddrPort, error) {
	n, a, err := c.ReadFromUDP(b)
	if err != nil {
		return n, netip.AddrPort{}, err
	}
	return n, a.AddrPort(), nil
}

//go:norace
func (c *UDPConn) WriteToUDP(b []byte, addr *UDPAddr) (int, error) {
	if c.real != nil {
		return c.real.WriteToUDP(b, addr)
	}
	x := vrt.Cur()
	if x == nil || x.Aborting() {
		return 0, c.closedErr("write")
	}
	x.Yield(nil, "WriteToUDP")
	if x.Aborting() {
		return 0, c.closedErr("write")
	}
	if c.closed {
		x.Touch(&c.hb, 0x4e02)
		return 0, c.closedErr("write")
	}
	if len(b) > 65507 {
		a := c.laddr
		return 0, &net.OpError{Op: "write", Net: "udp", Source: &a, Err: fmt.Errorf("message too long")}
	}
	c.nw.Sent++
	dst := c.nw.conns[addr.Port]
	copies := 1
	if c.nw.Policy != nil {
		copies = c.nw.Policy(&c.laddr, addr, b)
	}
	if dst != nil && !dst.closed {
		for i := 0; i < copies; i++ {
			dst.queue = append(dst.queue, Datagram{From: c.laddr, Data: append([]byte{}, b...)})
		}
		x.Touch(&dst.hb, 0x4e03)
	}
	return len(b), nil
}

//go:norace
func (c *UDPConn) WriteTo(b []byte, addr Addr) (int, error) {
	ua, ok := addr.(*UDPAddr)
	if !ok {
		return 0, fmt.Errorf("vnet: WriteTo needs a *UDPAddr")
	}
	return c.WriteToUDP(b, ua)
}

//go:norace
func (c *UDPConn) WriteToUDPAddrPort(b []byte, addr netip.AddrPort) (int, error) {
	return c.WriteToUDP(b, net.UDPAddrFromAddrPort(addr))
}

//go:norace
func (c *UDPConn) Close() error {
	if c.real != nil {
		return c.real.Close()
	}
	x := vrt.Cur()
	if x == nil || x.Aborting() {
		c.closed = true
		return nil
	}
	x.Yield(nil, "UDPConn.Close")
	x.Touch(&c.hb, 0x4e04)
	if c.closed {
		return c.closedErr("close")
	}
	c.closed = true
	if c.nw.conns[c.laddr.Port] == c {
		delete(c.nw.conns, c.laddr.Port)
	}
	return nil
}

//go:norace
func (c *UDPConn) SetReadDeadline(t time.Time) error {
	if c.real != nil {
		return c.real.SetReadDeadline(t)
	}
	x := vrt.Cur()
	if x == nil || x.Aborting() {
		return nil
	}
	x.Yield(nil, "SetReadDeadline")
	x.Touch(&c.hb, 0x4e05)
	if c.closed {
		return c.closedErr("set")
	}
	c.deadline = t
	if !t.IsZero() {
		if d := t.Sub(x.WallNow()); d > 0 {
			// make virtual time able to reach the deadline
			x.AfterFunc(d, "udp read deadline", func() {
				if x2 := vrt.Cur(); x2 != nil && !x2.Aborting() {
					x2.Touch(&c.hb, 0x4e06)
				}
			})
		}
	}
	return nil
}

//go:norace
func (c *UDPConn) SetDeadline(t time.Time) error { return c.SetReadDeadline(t) }

//go:norace
func (c *UDPConn) SetWriteDeadline(t time.Time) error {
	if c.real != nil {
		return c.real.SetWriteDeadline(t)
	}
	return nil
}

// Pending returns the number of datagrams queued at the socket (harness use).
//
//go:norace
func (c *UDPConn) Pending() int { return len(c.queue) }
