//go:build race

package vrt

import (
	"runtime"
	"unsafe"
)

// Under -race the cooperative baton must be invisible to the detector (otherwise every
// hand-off is a happens-before edge and nothing can ever race); the shims then re-create
// exactly the edges the Go memory model defines for the operations they stand for.

const RaceEnabled = true

//go:norace
func RaceDisable() { runtime.RaceDisable() }

//go:norace
func RaceEnable() { runtime.RaceEnable() }

//go:norace
func RaceAcquire(p unsafe.Pointer) { runtime.RaceAcquire(p) }

//go:norace
func RaceRelease(p unsafe.Pointer) { runtime.RaceRelease(p) }

//go:norace
func RaceReleaseMerge(p unsafe.Pointer) { runtime.RaceReleaseMerge(p) }
