// Package vrt is the runtime of the controlled-scheduler engine (E1). Instrumented code
// calls the shims in the sub-packages; every shim operation is a scheduling point owned
// by the current Exec. Exactly one logical thread runs at a time (cooperative baton).
package vrt

import (
	"fmt"
	"runtime"
	"sort"
	"strings"
	"time"
	"unsafe"
)

// PointKind distinguishes the two kinds of recorded choice points.
type PointKind uint8

const (
	SchedPoint PointKind = iota // which thread runs next
	EnvPoint                    // an environment / data choice (select case, fault, delivery)
)

// Point is one recorded branching point of an execution.
type Point struct {
	Kind   PointKind
	Width  int
	Chosen int
	// Cost[i] is the number of preemptions (SchedPoint) or deviations (EnvPoint) that
	// alternative i costs.
	Cost  []uint8
	Label string
	// StateKey hashes the happens-before state at this point (before the choice);
	// AltKeys[i] identifies alternative i independently of enumeration order.
	StateKey uint64
	AltKeys  []uint64
}

type Thread struct {
	ID      int
	Name    string
	wake    chan struct{}
	enabled Enabler
	desc    string // description of the pending operation (for diagnostics/oracles)
	descFn  fmt.Stringer
	Done    bool
	started bool
	body    func()
	exited  chan struct{}
	// Spawner is the thread that created this one (-1 for the root).
	Spawner int
	Site    string // spawn site
	// hb is the happens-before hash of the thread (for state caching); path is a
	// schedule-independent identity (spawner's path + spawn index).
	hb       uint64
	path     uint64
	children uint64
	// LastCommStep is the step at which this thread's most recent channel operation took
	// effect: the partner's step if a partner completed it while this thread was parked.
	LastCommStep int
}

type timer struct {
	when   time.Duration
	seq    int
	fn     func()
	active bool
	name   string
	id     uint64
	tok    byte // released by the creator, acquired by the timer function's thread
}

// Exec is one controlled execution.
type Exec struct {
	Threads []*Thread
	cur     *Thread

	prefix []int
	Points []Point
	Steps  int

	MaxSteps     int
	HorizonHit   bool
	Deadlock     bool // ended with parked, non-done threads and nothing enabled
	aborting     bool
	finished     chan struct{}
	finishedOnce bool

	// virtual time
	Now          time.Duration // since Epoch
	timers       []*timer
	timerSeq     int
	TimerHorizon time.Duration // timers later than this never fire automatically
	AutoTimers   bool          // fire the earliest timer when nothing else is enabled
	TimerFires   int

	// NoBranch makes the scheduler deterministic (first enabled thread, running thread
	// preferred) without recording choice points: used by harnesses for set-up and
	// tear-down phases whose interleavings are not the subject of the scenario.
	NoBranch bool
	// SchedDeterministic makes only the thread scheduling deterministic; environment
	// choices (Choose) are still recorded and enumerated.
	SchedDeterministic bool

	NumWorkers int // value returned for runtime.GOMAXPROCS(0)
	MapReverse bool

	// free-form log of the harness for this execution
	Log    []string
	Failed []string // internal errors (divergence etc.)

	nextObj        int
	pendingAltKeys []uint64
	cells          map[uintptr]*uint64 // hb cells of address-identified objects (atomics)
	CancelCell     uint64              // hb cell shared by every context cancellation
	RandCell       uint64
	timerCell      uint64
	panicVal       any
	panicStk       string

	// user data (harness ledger)
	Data any
	// per-execution state of shims that model an environment (virtual network)
	Ext map[string]any
}

// The baton: every channel operation that passes control between goroutines goes through
// these helpers so that the race detector does not see it.

//go:norace
func batonSend(ch chan struct{}) {
	RaceDisable()
	ch <- struct{}{}
	RaceEnable()
}

//go:norace
func batonTrySend(ch chan struct{}) {
	RaceDisable()
	select {
	case ch <- struct{}{}:
	default:
	}
	RaceEnable()
}

//go:norace
func batonRecv(ch chan struct{}) {
	RaceDisable()
	<-ch
	RaceEnable()
}

//go:norace
func batonClose(ch chan struct{}) {
	RaceDisable()
	close(ch)
	RaceEnable()
}

//go:norace
func batonClosed(ch chan struct{}) bool {
	RaceDisable()
	defer RaceEnable()
	select {
	case <-ch:
		return true
	default:
		return false
	}
}

//go:norace
func batonRecvTimeout(ch chan struct{}, d time.Duration) bool {
	RaceDisable()
	defer RaceEnable()
	select {
	case <-ch:
		return true
	case <-time.After(d):
		return false
	}
}

// Epoch is the virtual wall-clock origin.
var Epoch = time.Date(2024, 1, 1, 0, 0, 0, 0, time.UTC)

var cur *Exec

// Cur returns the active execution (nil when free-running).
//
//go:norace
func Cur() *Exec { return cur }

// ErrDiverged is reported when a replayed prefix does not fit the execution.
type divergence struct{ msg string }

// NewExec prepares an execution that will replay prefix and then take choice 0.
//
//go:norace
func NewExec(prefix []int) *Exec {
	return &Exec{prefix: prefix, MaxSteps: 20000, finished: make(chan struct{}), NumWorkers: 1, AutoTimers: true, TimerHorizon: 0}
}

// Run executes body as thread 0 and returns when the execution is over (all threads
// done, or quiescent with nothing enabled, or the step horizon was hit). Parked threads
// are then unwound with runtime.Goexit.
//
//go:norace
func (x *Exec) Run(body func()) {
	if cur != nil {
		panic("vrt: nested Exec")
	}
	cur = x
	t := x.newThread("main", body, -1, "")
	x.cur = t
	x.start(t)
	batonRecv(x.finished)
	x.abortAll()
	cur = nil
}

//go:norace
func (x *Exec) newThread(name string, body func(), spawner int, site string) *Thread {
	t := &Thread{ID: len(x.Threads), Name: name, wake: make(chan struct{}, 1), body: body, exited: make(chan struct{}), Spawner: spawner, Site: site}
	x.Threads = append(x.Threads, t)
	return t
}

// Touch records that the running thread performed an operation (code) on the shared
// object whose happens-before cell is cell: both absorb each other's history.
//
//go:norace
func (x *Exec) Touch(cell *uint64, code uint64) {
	t := x.cur
	h := mix(mix(t.hb, *cell), code)
	t.hb = h
	*cell = h
}

// HB returns the running thread's history hash.
//
//go:norace
func (x *Exec) HB() uint64 { return x.cur.hb }

// Absorb mixes a value into the running thread's history (results of reads, choices).
//
//go:norace
func (x *Exec) Absorb(v uint64) { x.cur.hb = mix(x.cur.hb, v) }

// CellFor returns the hb cell of an address-identified object.
//
//go:norace
func (x *Exec) CellFor(p uintptr) *uint64 {
	if x.cells == nil {
		x.cells = map[uintptr]*uint64{}
	}
	c, ok := x.cells[p]
	if !ok {
		c = new(uint64)
		x.cells[p] = c
	}
	return c
}

// stateKey hashes every thread's history, the clock and the pending timers.
//
//go:norace
func (x *Exec) stateKey() uint64 {
	var acc uint64
	for _, t := range x.Threads {
		v := mix(t.path, t.hb)
		if t.Done {
			v = mix(v, 0xd0e)
		}
		acc += mix(v, 0x51ed) // commutative combination: thread order is irrelevant
	}
	acc = mix(acc, uint64(x.Now))
	var tacc uint64
	for _, tm := range x.timers {
		if tm.active {
			tacc += mix(tm.id, uint64(tm.when))
		}
	}
	return mix(acc, tacc)
}

//go:norace
func (x *Exec) start(t *Thread) {
	t.started = true
	go func() {
		defer batonClose(t.exited)
		batonRecv(t.wake)
		if x.aborting {
			return
		}
		defer func() {
			if r := recover(); r != nil {
				if _, ok := r.(divergence); !ok && x.panicVal == nil {
					x.panicVal = r
					buf := make([]byte, 8192)
					x.panicStk = string(buf[:runtime.Stack(buf, false)])
				}
				if d, ok := r.(divergence); ok {
					x.Failed = append(x.Failed, d.msg)
				}
				t.Done = true
				if !x.aborting {
					x.finish()
				}
				return
			}
		}()
		t.body()
		t.Done = true
		if x.aborting {
			return
		}
		x.threadExit(t)
	}()
	if t.ID == 0 {
		batonSend(t.wake)
	}
}

// Go spawns a new logical thread; it becomes schedulable at the next scheduling point.
//
//go:norace
func Go(name string, fn func()) {
	x := cur
	if x == nil {
		go fn()
		return
	}
	if x.aborting {
		return
	}
	site := ""
	if _, file, line, ok := runtime.Caller(1); ok {
		if i := strings.LastIndex(file, "/"); i >= 0 {
			if j := strings.LastIndex(file[:i], "/"); j >= 0 {
				file = file[j+1:]
			}
		}
		site = fmt.Sprintf("%s:%d", file, line)
	}
	t := x.newThread(name, fn, x.cur.ID, site)
	p := x.cur
	p.children++
	t.path = mix(p.path, p.children)
	t.hb = mix(p.hb, 0x5bd1e995)
	p.hb = mix(p.hb, 0x60+p.children)
	x.start(t)
}

// Me returns the running thread.
//
//go:norace
func (x *Exec) Me() *Thread { return x.cur }

//go:norace
func (x *Exec) threadExit(t *Thread) {
	next := x.pickNext(nil)
	if next == nil {
		x.finish()
		return
	}
	x.cur = next
	batonSend(next.wake)
}

//go:norace
func (x *Exec) finish() {
	if !x.finishedOnce {
		x.finishedOnce = true
		batonClose(x.finished)
	}
}

//go:norace
func (x *Exec) abortAll() {
	x.aborting = true
	for _, t := range x.Threads {
		if !t.started {
			continue
		}
		if batonClosed(t.exited) {
			continue
		}
		batonTrySend(t.wake)
		if !batonRecvTimeout(t.exited, 5*time.Second) {
			// a thread that does not unwind is stuck in native code: leak it loudly
			x.Failed = append(x.Failed, fmt.Sprintf("thread %d (%s) did not unwind; pending=%s", t.ID, t.Name, t.Pending()))
		}
	}
}

// Aborting reports whether the execution is being torn down (shims become no-ops).
//
//go:norace
func (x *Exec) Aborting() bool { return x.aborting }

// Enabler tells the scheduler whether a parked operation can proceed. The shims implement
// it with named types whose methods are excluded from race instrumentation (closures
// cannot be): the scheduler evaluates it from whatever goroutine holds the baton.
type Enabler interface{ Enabled() bool }

type funcEnabler struct{ f func() bool }

//go:norace
func (f funcEnabler) Enabled() bool { return f.f() }

type neverEnabled struct{}

//go:norace
func (neverEnabled) Enabled() bool { return false }

// Never is an operation that can never proceed (nil channel operations).
var Never Enabler = neverEnabled{}

// YieldOp is Yield for shim operations (no closures).
//
//go:norace
func (x *Exec) YieldOp(op Enabler, d fmt.Stringer) {
	x.yieldOp(op, "", d)
}

// Yield is the scheduling point: the running thread announces a pending operation that
// is enabled when enabled() is true (nil = always) and lets the scheduler decide who
// runs next. It returns when this thread has been chosen and its operation is enabled.
//
//go:norace
func (x *Exec) Yield(enabled func() bool, desc string) {
	if enabled == nil {
		x.yieldOp(nil, desc, nil)
		return
	}
	x.yieldOp(funcEnabler{enabled}, desc, nil)
}

// YieldFn is Yield with a lazily rendered description (hot paths).
//
//go:norace
func (x *Exec) YieldFn(enabled func() bool, descFn func() string) {
	if enabled == nil {
		x.yieldOp(nil, "", fnStringer{descFn})
		return
	}
	x.yieldOp(funcEnabler{enabled}, "", fnStringer{descFn})
}

type fnStringer struct{ f func() string }

//go:norace
func (f fnStringer) String() string { return f.f() }

// Pending describes the operation the thread is parked at.
//
//go:norace
func (t *Thread) Pending() string {
	if t.descFn != nil {
		return t.desc + t.descFn.String()
	}
	return t.desc
}

//go:norace
func (x *Exec) yieldOp(enabled Enabler, desc string, descFn fmt.Stringer) {
	if x.aborting {
		return
	}
	t := x.cur
	x.Steps++
	if x.Steps > x.MaxSteps {
		x.HorizonHit = true
		t.enabled = Never
		t.desc, t.descFn = "HORIZON "+desc, descFn
		x.finish()
		batonRecv(t.wake)
		runtime.Goexit()
	}
	t.enabled = enabled
	t.desc, t.descFn = desc, descFn
	next := x.pickNext(t)
	if next == nil {
		// nothing can run: quiescent / deadlock
		x.Deadlock = true
		x.finish()
		batonRecv(t.wake)
		runtime.Goexit()
	}
	if next != t {
		x.cur = next
		batonSend(next.wake)
		batonRecv(t.wake)
		if x.aborting {
			runtime.Goexit()
		}
	}
	t.enabled = nil
}

//go:norace
func (t *Thread) isEnabled() bool {
	if t.Done {
		return false
	}
	if t.enabled == nil {
		return true
	}
	return t.enabled.Enabled()
}

// pickNext chooses the next thread. running is the yielding thread (nil at thread exit).
//
//go:norace
func (x *Exec) pickNext(running *Thread) *Thread {
	for {
		var en []*Thread
		runningEnabled := running != nil && running.isEnabled()
		if runningEnabled {
			en = append(en, running)
		}
		for _, t := range x.Threads {
			if t != running && t.isEnabled() {
				en = append(en, t)
			}
		}
		if len(en) == 0 {
			if x.AutoTimers && x.fireEarliestTimer() {
				continue
			}
			return nil
		}
		if len(en) == 1 || x.NoBranch || x.SchedDeterministic {
			return en[0]
		}
		cost := make([]uint8, len(en))
		if runningEnabled {
			for i := 1; i < len(en); i++ {
				cost[i] = 1
			}
		}
		keys := make([]uint64, len(en))
		for i, t := range en {
			keys[i] = t.path
		}
		x.pendingAltKeys = keys
		c := x.choose(SchedPoint, len(en), cost, "")
		return en[c]
	}
}

//go:norace
func (x *Exec) choose(kind PointKind, n int, cost []uint8, label string) int {
	i := len(x.Points)
	c := 0
	if i < len(x.prefix) {
		c = x.prefix[i]
		if c >= n {
			panic(divergence{fmt.Sprintf("replay divergence at point %d: choice %d of %d (%s)", i, c, n, label)})
		}
	}
	x.Points = append(x.Points, Point{Kind: kind, Width: n, Chosen: c, Cost: cost, Label: label, StateKey: x.stateKey(), AltKeys: x.pendingAltKeys})
	x.pendingAltKeys = nil
	return c
}

// Choose is an environment choice among n alternatives; cost[i] deviations are charged
// for alternative i (nil = all free). Alternative 0 is the default behaviour.
//
//go:norace
func (x *Exec) Choose(n int, cost []uint8, label string) int {
	if x.aborting {
		runtime.Goexit()
	}
	if n <= 1 || x.NoBranch {
		return 0
	}
	if cost == nil {
		cost = make([]uint8, n)
	}
	c := x.choose(EnvPoint, n, cost, label)
	x.Absorb(0xc401ce00 + uint64(c))
	return c
}

type othersIdle struct {
	x  *Exec
	me *Thread
}

//go:norace
func (o othersIdle) Enabled() bool { return o.x.OthersIdle(o.me) }

// OthersIdle reports whether no thread other than me is enabled.
//
//go:norace
func (x *Exec) OthersIdle(me *Thread) bool {
	for _, t := range x.Threads {
		if t != me && t.isEnabled() {
			return false
		}
	}
	return true
}

// Settle runs every other thread, deterministically and without recording choices, until
// none of them can make progress; then the caller continues with branching restored.
//
//go:norace
func (x *Exec) Settle() {
	if x.aborting {
		return
	}
	me := x.cur
	old := x.NoBranch
	x.NoBranch = true
	x.yieldOp(othersIdle{x, me}, "settle", nil)
	x.NoBranch = old
}

// SettleUntil settles and fires every timer due up to virtual time d (deterministically).
//
//go:norace
func (x *Exec) SettleUntil(d time.Duration) {
	for {
		x.Settle()
		when, ok := x.NextTimer()
		if !ok || when > d || x.aborting {
			return
		}
		old := x.NoBranch
		x.NoBranch = true
		x.FireNextTimer()
		x.NoBranch = old
	}
}

// Choices returns the choice list of this execution (a replayable schedule).
//
//go:norace
func (x *Exec) Choices() []int {
	out := make([]int, len(x.Points))
	for i, p := range x.Points {
		out[i] = p.Chosen
	}
	return out
}

// NewObjID hands out deterministic object ids.
//
//go:norace
func (x *Exec) NewObjID() int { x.nextObj++; return x.nextObj }

// Panic returns the first panic raised by a thread of this execution, if any.
//
//go:norace
func (x *Exec) Panic() (any, string) { return x.panicVal, x.panicStk }

// Parked returns the threads that are neither done nor enabled.
//
//go:norace
func (x *Exec) Parked() []*Thread {
	var out []*Thread
	for _, t := range x.Threads {
		if !t.Done && t.started {
			out = append(out, t)
		}
	}
	return out
}

//go:norace
func (x *Exec) Logf(format string, args ...any) {
	x.Log = append(x.Log, fmt.Sprintf(format, args...))
}

// ---- virtual time ----

//go:norace
func (x *Exec) addTimer(d time.Duration, name string, fn func()) *timer {
	if d < 0 {
		d = 0
	}
	x.timerSeq++
	tm := &timer{when: x.Now + d, seq: x.timerSeq, fn: fn, active: true, name: name}
	if x.cur != nil {
		x.Touch(&x.timerCell, 0x71)
		tm.id = x.cur.hb
	}
	RaceRelease(unsafe.Pointer(&tm.tok))
	x.timers = append(x.timers, tm)
	return tm
}

//go:norace
func (x *Exec) pendingTimers() []*timer {
	var out []*timer
	keep := x.timers[:0]
	for _, tm := range x.timers {
		if tm.active {
			out = append(out, tm)
			keep = append(keep, tm)
		}
	}
	x.timers = keep
	sort.SliceStable(out, func(i, j int) bool {
		if out[i].when != out[j].when {
			return out[i].when < out[j].when
		}
		return out[i].seq < out[j].seq
	})
	return out
}

// NextTimer returns the due time of the earliest pending timer.
//
//go:norace
func (x *Exec) NextTimer() (time.Duration, bool) {
	p := x.pendingTimers()
	if len(p) == 0 {
		return 0, false
	}
	return p[0].when, true
}

// fireEarliestTimer advances the clock to the earliest pending timer and runs its
// function in a fresh thread. Returns false if there is none within the horizon.
//
//go:norace
func (x *Exec) fireEarliestTimer() bool {
	p := x.pendingTimers()
	if len(p) == 0 {
		return false
	}
	tm := p[0]
	if x.TimerHorizon > 0 && tm.when > x.TimerHorizon {
		return false
	}
	if x.TimerHorizon == 0 {
		return false
	}
	x.fire(tm)
	return true
}

//go:norace
func (x *Exec) fire(tm *timer) {
	if tm.when > x.Now {
		x.Now = tm.when
	}
	tm.active = false
	x.TimerFires++
	fn := tm.fn
	t := x.newThread("timer:"+tm.name, func() {
		RaceAcquire(unsafe.Pointer(&tm.tok))
		fn()
	}, -1, "timer")
	t.path = mix(tm.id, 0xf19e)
	t.hb = mix(tm.id, uint64(tm.when))
	x.start(t)
}

// FireNextTimer lets a harness thread fire the earliest pending timer explicitly
// (an environment action). The timer function becomes a runnable thread.
//
//go:norace
func (x *Exec) FireNextTimer() bool {
	p := x.pendingTimers()
	if len(p) == 0 {
		return false
	}
	x.fire(p[0])
	return true
}

// Advance moves the virtual clock forward without firing anything.
//
//go:norace
func (x *Exec) Advance(d time.Duration) { x.Now += d }

// WallNow is the virtual wall-clock reading.
//
//go:norace
func (x *Exec) WallNow() time.Time { return Epoch.Add(x.Now) }

// ---- happens-before hashing (state caching) ----

//go:norace
func mix(a, b uint64) uint64 {
	h := a ^ (b + 0x9e3779b97f4a7c15 + (a << 6) + (a >> 2))
	h ^= h >> 33
	h *= 0xff51afd7ed558ccd
	h ^= h >> 33
	return h
}

// NumWorkers replaces runtime.GOMAXPROCS(0) in instrumented code.
//
//go:norace
func NumWorkers() int {
	if cur == nil {
		return runtime.GOMAXPROCS(0)
	}
	return cur.NumWorkers
}

// Point is a plain scheduling point (always enabled), e.g. before an atomic operation.
//
//go:norace
func PointAlways(desc string) {
	x := cur
	if x == nil {
		return
	}
	if x.aborting {
		return
	}
	x.Yield(nil, desc)
}
