package vrt

import "time"

// TimerHandle is the handle vtime builds its Timer/Ticker on.
type TimerHandle struct{ tm *timer }

// AfterFunc registers fn to run in its own thread once virtual time has advanced by d.
//
//go:norace
func (x *Exec) AfterFunc(d time.Duration, name string, fn func()) *TimerHandle {
	return &TimerHandle{tm: x.addTimer(d, name, fn)}
}

// Stop deactivates the timer; reports whether it was still pending.
//
//go:norace
func (h *TimerHandle) Stop() bool {
	was := h.tm.active
	h.tm.active = false
	if x := cur; x != nil && x.cur != nil && !x.aborting {
		x.Touch(&x.timerCell, 0x72)
	}
	return was
}

// Reset re-arms the timer d from now.
//
//go:norace
func (h *TimerHandle) Reset(x *Exec, d time.Duration) bool {
	was := h.tm.active
	h.tm.active = false
	h.tm = x.addTimer(d, h.tm.name, h.tm.fn)
	return was
}

//go:norace
func (h *TimerHandle) Active() bool { return h.tm.active }

// PendingTimerNames lists pending timers (diagnostics).
//
//go:norace
func (x *Exec) PendingTimerNames() []string {
	var out []string
	for _, tm := range x.pendingTimers() {
		out = append(out, tm.name)
	}
	return out
}
