// Package vtime replaces the clock and timer functions of package time in instrumented
// code with a virtual clock owned by the current execution.
package vtime

import (
	"time"

	"verifmc/vrt"
	"verifmc/vrt/vchan"
)

//go:norace
func Now() time.Time {
	x := vrt.Cur()
	if x == nil {
		return time.Now()
	}
	if !x.Aborting() {
		x.Absorb(uint64(x.Now))
	}
	return x.WallNow()
}

//go:norace
func Since(t time.Time) time.Duration { return Now().Sub(t) }

//go:norace
func Until(t time.Time) time.Duration { return t.Sub(Now()) }

type Timer struct {
	C      *vchan.Chan[time.Time]
	h      *vrt.TimerHandle
	native *time.Timer // free-running fallback (no controlled execution active)
}

//go:norace
func AfterFunc(d time.Duration, f func()) *Timer {
	x := vrt.Cur()
	if x == nil {
		return &Timer{native: time.AfterFunc(d, f)}
	}
	return &Timer{h: x.AfterFunc(d, "AfterFunc", f)}
}

//go:norace
func NewTimer(d time.Duration) *Timer {
	x := vrt.Cur()
	if x == nil {
		panic("vtime.NewTimer outside a controlled execution")
	}
	t := &Timer{C: vchan.Make[time.Time](1)}
	t.h = x.AfterFunc(d, "Timer", func() { t.C.TrySend(Now()) })
	return t
}

//go:norace
func (t *Timer) Stop() bool {
	if t.native != nil {
		return t.native.Stop()
	}
	x := vrt.Cur()
	if x == nil || x.Aborting() {
		return false
	}
	return t.h.Stop()
}

//go:norace
func (t *Timer) Reset(d time.Duration) bool {
	if t.native != nil {
		return t.native.Reset(d)
	}
	x := vrt.Cur()
	if x == nil || x.Aborting() {
		return false
	}
	return t.h.Reset(x, d)
}

//go:norace
func After(d time.Duration) *vchan.Chan[time.Time] { return NewTimer(d).C }

//go:norace
func Sleep(d time.Duration) {
	x := vrt.Cur()
	if x == nil || x.Aborting() {
		return
	}
	NewTimer(d).C.Recv()
}

type Ticker struct {
	C       *vchan.Chan[time.Time]
	h       *vrt.TimerHandle
	d       time.Duration
	stopped bool
}

//go:norace
func NewTicker(d time.Duration) *Ticker {
	x := vrt.Cur()
	if x == nil {
		panic("vtime.NewTicker outside a controlled execution")
	}
	if d <= 0 {
		panic("non-positive interval for NewTicker")
	}
	t := &Ticker{C: vchan.Make[time.Time](1), d: d}
	t.arm(x)
	return t
}

//go:norace
func (t *Ticker) arm(x *vrt.Exec) {
	t.h = x.AfterFunc(t.d, "Ticker", func() {
		if t.stopped {
			return
		}
		t.C.TrySend(Now())
		if x2 := vrt.Cur(); x2 != nil && !x2.Aborting() {
			t.arm(x2)
		}
	})
}

//go:norace
func (t *Ticker) Stop() {
	x := vrt.Cur()
	if x == nil || x.Aborting() {
		return
	}
	t.stopped = true
	t.h.Stop()
}

//go:norace
func (t *Ticker) Reset(d time.Duration) {
	x := vrt.Cur()
	if x == nil || x.Aborting() {
		return
	}
	t.h.Stop()
	t.d = d
	t.stopped = false
	t.arm(x)
}
