//go:build !race

package vrt

import "unsafe"

const RaceEnabled = false

func RaceDisable()                      {}
func RaceEnable()                       {}
func RaceAcquire(p unsafe.Pointer)      {}
func RaceRelease(p unsafe.Pointer)      {}
func RaceReleaseMerge(p unsafe.Pointer) {}
