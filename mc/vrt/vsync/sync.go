// Package vsync replaces package sync in instrumented code.
package vsync

import (
	"fmt"
	"unsafe"

	"verifmc/vrt"
)

// parked operations (named types: their methods carry //go:norace, closures cannot)
type mutexFree struct{ m *Mutex }

//go:norace
func (w mutexFree) Enabled() bool { return !w.m.locked }

//go:norace
func (w mutexFree) String() string { return fmt.Sprintf("Lock mutex@%p", w.m) }

type rwWritable struct{ m *RWMutex }

//go:norace
func (w rwWritable) Enabled() bool { return !w.m.writer && w.m.readers == 0 }

//go:norace
func (w rwWritable) String() string { return fmt.Sprintf("Lock rwmutex@%p", w.m) }

type rwReadable struct{ m *RWMutex }

//go:norace
func (w rwReadable) Enabled() bool { return !w.m.writer }

//go:norace
func (w rwReadable) String() string { return fmt.Sprintf("RLock rwmutex@%p", w.m) }

type onceIdle struct{ o *Once }

//go:norace
func (w onceIdle) Enabled() bool { return w.o.state != 1 }

//go:norace
func (w onceIdle) String() string { return fmt.Sprintf("Once.Do@%p", w.o) }

type wgZero struct{ wg *WaitGroup }

//go:norace
func (w wgZero) Enabled() bool { return w.wg.n == 0 }

//go:norace
func (w wgZero) String() string { return fmt.Sprintf("WaitGroup.Wait@%p", w.wg) }

type Locker interface {
	Lock()
	Unlock()
}

// Mutex is usable as a zero value and may be embedded by value (like sync.Mutex).
type Mutex struct {
	locked bool
	holder int
	hb     uint64
}

//go:norace
func (m *Mutex) Lock() {
	x := vrt.Cur()
	if x == nil || x.Aborting() {
		return
	}
	x.YieldOp(mutexFree{m}, mutexFree{m})
	m.locked = true
	m.holder = x.Me().ID
	x.Touch(&m.hb, 1)
	vrt.RaceAcquire(unsafe.Pointer(m))
}

//go:norace
func (m *Mutex) TryLock() bool {
	x := vrt.Cur()
	if x == nil || x.Aborting() {
		return true
	}
	x.Yield(nil, "TryLock")
	if m.locked {
		x.Touch(&m.hb, 3)
		return false
	}
	m.locked = true
	m.holder = x.Me().ID
	x.Touch(&m.hb, 1)
	vrt.RaceAcquire(unsafe.Pointer(m))
	return true
}

//go:norace
func (m *Mutex) Unlock() {
	x := vrt.Cur()
	if x == nil || x.Aborting() {
		return
	}
	if !m.locked {
		panic("sync: unlock of unlocked mutex")
	}
	vrt.RaceRelease(unsafe.Pointer(m))
	m.locked = false
	x.Touch(&m.hb, 2)
	// releasing is not a scheduling point by itself: the next visible operation of this
	// thread is, and no other thread can observe the difference earlier.
}

// RWMutex with writer preference left out (Go's writer preference only affects
// which blocked party proceeds, which the scheduler explores anyway).
type RWMutex struct {
	writer  bool
	readers int
	hb      uint64
}

//go:norace
func (m *RWMutex) Lock() {
	x := vrt.Cur()
	if x == nil || x.Aborting() {
		return
	}
	x.YieldOp(rwWritable{m}, rwWritable{m})
	m.writer = true
	x.Touch(&m.hb, 4)
	// as sync.RWMutex: a writer acquires what earlier writers (readerSem role: &m.writer) and
	// earlier readers (writerSem role: &m.readers) released
	vrt.RaceAcquire(unsafe.Pointer(&m.writer))
	vrt.RaceAcquire(unsafe.Pointer(&m.readers))
}

//go:norace
func (m *RWMutex) Unlock() {
	x := vrt.Cur()
	if x == nil || x.Aborting() {
		return
	}
	if !m.writer {
		panic("sync: Unlock of unlocked RWMutex")
	}
	vrt.RaceRelease(unsafe.Pointer(&m.writer))
	m.writer = false
	x.Touch(&m.hb, 5)
}

//go:norace
func (m *RWMutex) RLock() {
	x := vrt.Cur()
	if x == nil || x.Aborting() {
		return
	}
	x.YieldOp(rwReadable{m}, rwReadable{m})
	m.readers++
	x.Touch(&m.hb, 6)
	// readers synchronise with writers only, never with one another
	vrt.RaceAcquire(unsafe.Pointer(&m.writer))
}

//go:norace
func (m *RWMutex) RUnlock() {
	x := vrt.Cur()
	if x == nil || x.Aborting() {
		return
	}
	if m.readers <= 0 {
		panic("sync: RUnlock of unlocked RWMutex")
	}
	vrt.RaceReleaseMerge(unsafe.Pointer(&m.readers))
	m.readers--
	x.Touch(&m.hb, 7)
}

//go:norace
func (m *RWMutex) RLocker() Locker { return (*rlocker)(m) }

type rlocker RWMutex

//go:norace
func (r *rlocker) Lock() { (*RWMutex)(r).RLock() }

//go:norace
func (r *rlocker) Unlock() { (*RWMutex)(r).RUnlock() }

// Once mirrors sync.Once: concurrent callers block until the first call has returned.
type Once struct {
	state int // 0 new, 1 running, 2 done
	hb    uint64
}

//go:norace
func (o *Once) Do(f func()) {
	x := vrt.Cur()
	if x == nil || x.Aborting() {
		if o.state == 0 {
			o.state = 1
			f()
			o.state = 2
		}
		return
	}
	x.YieldOp(onceIdle{o}, onceIdle{o})
	if o.state == 2 {
		x.Touch(&o.hb, 8)
		vrt.RaceAcquire(unsafe.Pointer(o))
		return
	}
	o.state = 1
	x.Touch(&o.hb, 9)
	defer func() {
		vrt.RaceRelease(unsafe.Pointer(o))
		o.state = 2
		if x2 := vrt.Cur(); x2 != nil && !x2.Aborting() {
			x2.Touch(&o.hb, 10)
		}
	}()
	f()
}

type WaitGroup struct {
	n  int
	hb uint64
}

//go:norace
func (wg *WaitGroup) Add(d int) {
	if d < 0 {
		vrt.RaceReleaseMerge(unsafe.Pointer(wg))
	}
	wg.n += d
	if x := vrt.Cur(); x != nil && !x.Aborting() {
		x.Touch(&wg.hb, 11)
	}
	if wg.n < 0 {
		panic("sync: negative WaitGroup counter")
	}
}

//go:norace
func (wg *WaitGroup) Done() { wg.Add(-1) }

//go:norace
func (wg *WaitGroup) Wait() {
	x := vrt.Cur()
	if x == nil || x.Aborting() {
		return
	}
	x.YieldOp(wgZero{wg}, wgZero{wg})
	x.Touch(&wg.hb, 12)
	vrt.RaceAcquire(unsafe.Pointer(wg))
}

// Map mirrors the subset of sync.Map used by the repository, with insertion-ordered
// (deterministic) Range.
type Map struct {
	keys []any
	vals map[any]any
	hb   uint64
}

//go:norace
func (m *Map) point(desc string) bool {
	x := vrt.Cur()
	if x == nil || x.Aborting() {
		return x == nil
	}
	x.Yield(nil, desc)
	x.Touch(&m.hb, 13)
	// sync.Map operations synchronise with one another
	vrt.RaceAcquire(unsafe.Pointer(m))
	vrt.RaceReleaseMerge(unsafe.Pointer(m))
	return true
}

//go:norace
func (m *Map) Load(k any) (any, bool) {
	m.point("Map.Load")
	v, ok := m.vals[k]
	return v, ok
}

//go:norace
func (m *Map) Store(k, v any) {
	m.point("Map.Store")
	m.store(k, v)
}

//go:norace
func (m *Map) store(k, v any) {
	if m.vals == nil {
		m.vals = map[any]any{}
	}
	if _, ok := m.vals[k]; !ok {
		m.keys = append(m.keys, k)
	}
	m.vals[k] = v
}

//go:norace
func (m *Map) LoadOrStore(k, v any) (any, bool) {
	m.point("Map.LoadOrStore")
	if old, ok := m.vals[k]; ok {
		return old, true
	}
	m.store(k, v)
	return v, false
}

//go:norace
func (m *Map) LoadAndDelete(k any) (any, bool) {
	m.point("Map.LoadAndDelete")
	v, ok := m.vals[k]
	m.del(k)
	return v, ok
}

//go:norace
func (m *Map) Delete(k any) {
	m.point("Map.Delete")
	m.del(k)
}

//go:norace
func (m *Map) del(k any) {
	if _, ok := m.vals[k]; ok {
		delete(m.vals, k)
		for i := range m.keys {
			if m.keys[i] == k {
				m.keys = append(m.keys[:i:i], m.keys[i+1:]...)
				break
			}
		}
	}
}

//go:norace
func (m *Map) Range(f func(k, v any) bool) {
	m.point("Map.Range")
	keys := append([]any{}, m.keys...)
	for _, k := range keys {
		v, ok := m.vals[k]
		if !ok {
			continue
		}
		if !f(k, v) {
			return
		}
	}
}
