// Package vsync replaces package sync in instrumented code.
package vsync

import (
	"fmt"

	"verifmc/vrt"
)

type Locker interface {
	Lock()
	Unlock()
}

// Mutex is usable as a zero value and may be embedded by value (like sync.Mutex).
type Mutex struct {
	locked bool
	holder int
	hb     uint64
}

func (m *Mutex) Lock() {
	x := vrt.Cur()
	if x == nil || x.Aborting() {
		return
	}
	x.YieldFn(func() bool { return !m.locked }, func() string { return fmt.Sprintf("Lock mutex@%p", m) })
	m.locked = true
	m.holder = x.Me().ID
	x.Touch(&m.hb, 1)
}

func (m *Mutex) TryLock() bool {
	x := vrt.Cur()
	if x == nil || x.Aborting() {
		return true
	}
	x.Yield(nil, "TryLock")
	if m.locked {
		x.Touch(&m.hb, 3)
		return false
	}
	m.locked = true
	m.holder = x.Me().ID
	x.Touch(&m.hb, 1)
	return true
}

func (m *Mutex) Unlock() {
	x := vrt.Cur()
	if x == nil || x.Aborting() {
		return
	}
	if !m.locked {
		panic("sync: unlock of unlocked mutex")
	}
	m.locked = false
	x.Touch(&m.hb, 2)
	// releasing is not a scheduling point by itself: the next visible operation of this
	// thread is, and no other thread can observe the difference earlier.
}

// RWMutex with writer preference left out (Go's writer preference only affects
// which blocked party proceeds, which the scheduler explores anyway).
type RWMutex struct {
	writer  bool
	readers int
	hb      uint64
}

func (m *RWMutex) Lock() {
	x := vrt.Cur()
	if x == nil || x.Aborting() {
		return
	}
	x.YieldFn(func() bool { return !m.writer && m.readers == 0 }, func() string { return fmt.Sprintf("Lock rwmutex@%p", m) })
	m.writer = true
	x.Touch(&m.hb, 4)
}

func (m *RWMutex) Unlock() {
	x := vrt.Cur()
	if x == nil || x.Aborting() {
		return
	}
	if !m.writer {
		panic("sync: Unlock of unlocked RWMutex")
	}
	m.writer = false
	x.Touch(&m.hb, 5)
}

func (m *RWMutex) RLock() {
	x := vrt.Cur()
	if x == nil || x.Aborting() {
		return
	}
	x.YieldFn(func() bool { return !m.writer }, func() string { return fmt.Sprintf("RLock rwmutex@%p", m) })
	m.readers++
	x.Touch(&m.hb, 6)
}

func (m *RWMutex) RUnlock() {
	x := vrt.Cur()
	if x == nil || x.Aborting() {
		return
	}
	if m.readers <= 0 {
		panic("sync: RUnlock of unlocked RWMutex")
	}
	m.readers--
	x.Touch(&m.hb, 7)
}

func (m *RWMutex) RLocker() Locker { return (*rlocker)(m) }

type rlocker RWMutex

func (r *rlocker) Lock()   { (*RWMutex)(r).RLock() }
func (r *rlocker) Unlock() { (*RWMutex)(r).RUnlock() }

// Once mirrors sync.Once: concurrent callers block until the first call has returned.
type Once struct {
	state int // 0 new, 1 running, 2 done
	hb    uint64
}

func (o *Once) Do(f func()) {
	x := vrt.Cur()
	if x == nil || x.Aborting() {
		if o.state == 0 {
			o.state = 1
			f()
			o.state = 2
		}
		return
	}
	x.YieldFn(func() bool { return o.state != 1 }, func() string { return fmt.Sprintf("Once.Do@%p", o) })
	if o.state == 2 {
		x.Touch(&o.hb, 8)
		return
	}
	o.state = 1
	x.Touch(&o.hb, 9)
	defer func() {
		o.state = 2
		if x2 := vrt.Cur(); x2 != nil && !x2.Aborting() {
			x2.Touch(&o.hb, 10)
		}
	}()
	f()
}

type WaitGroup struct {
	n  int
	hb uint64
}

func (wg *WaitGroup) Add(d int) {
	wg.n += d
	if x := vrt.Cur(); x != nil && !x.Aborting() {
		x.Touch(&wg.hb, 11)
	}
	if wg.n < 0 {
		panic("sync: negative WaitGroup counter")
	}
}

func (wg *WaitGroup) Done() { wg.Add(-1) }

func (wg *WaitGroup) Wait() {
	x := vrt.Cur()
	if x == nil || x.Aborting() {
		return
	}
	x.YieldFn(func() bool { return wg.n == 0 }, func() string { return fmt.Sprintf("WaitGroup.Wait@%p", wg) })
	x.Touch(&wg.hb, 12)
}

// Map mirrors the subset of sync.Map used by the repository, with insertion-ordered
// (deterministic) Range.
type Map struct {
	keys []any
	vals map[any]any
	hb   uint64
}

func (m *Map) point(desc string) bool {
	x := vrt.Cur()
	if x == nil || x.Aborting() {
		return x == nil
	}
	x.Yield(nil, desc)
	x.Touch(&m.hb, 13)
	return true
}

func (m *Map) Load(k any) (any, bool) {
	m.point("Map.Load")
	v, ok := m.vals[k]
	return v, ok
}

func (m *Map) Store(k, v any) {
	m.point("Map.Store")
	m.store(k, v)
}

func (m *Map) store(k, v any) {
	if m.vals == nil {
		m.vals = map[any]any{}
	}
	if _, ok := m.vals[k]; !ok {
		m.keys = append(m.keys, k)
	}
	m.vals[k] = v
}

func (m *Map) LoadOrStore(k, v any) (any, bool) {
	m.point("Map.LoadOrStore")
	if old, ok := m.vals[k]; ok {
		return old, true
	}
	m.store(k, v)
	return v, false
}

func (m *Map) LoadAndDelete(k any) (any, bool) {
	m.point("Map.LoadAndDelete")
	v, ok := m.vals[k]
	m.del(k)
	return v, ok
}

func (m *Map) Delete(k any) {
	m.point("Map.Delete")
	m.del(k)
}

func (m *Map) del(k any) {
	if _, ok := m.vals[k]; ok {
		delete(m.vals, k)
		for i := range m.keys {
			if m.keys[i] == k {
				m.keys = append(m.keys[:i:i], m.keys[i+1:]...)
				break
			}
		}
	}
}

func (m *Map) Range(f func(k, v any) bool) {
	m.point("Map.Range")
	keys := append([]any{}, m.keys...)
	for _, k := range keys {
		v, ok := m.vals[k]
		if !ok {
			continue
		}
		if !f(k, v) {
			return
		}
	}
}
