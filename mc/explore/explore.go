// Package explore is the stateless depth-first explorer of the controlled-scheduler
// engine: iterative preemption/deviation bounding over the choice points recorded by vrt,
// sharded over worker processes.
package explore

import (
	"bufio"
	"encoding/json"
	"fmt"
	"hash/fnv"
	"os"
	"os/exec"
	"runtime"
	"sort"
	"strconv"
	"strings"
	"sync"
	"time"

	"verifmc/evid"
	"verifmc/pk"
	"verifmc/vrt"
)

// Finding is one failed oracle clause on one execution.
type Finding struct {
	Kind   string `json:"kind"`
	Site   string `json:"site"`
	Detail string `json:"detail"`
}

// Scenario is a closed system: a driver body plus an oracle over the finished execution.
type Scenario struct {
	Name string
	// PB / DB: preemption and deviation bounds for this scenario.
	PB, DB int
	// MaxExecs caps the executions of this scenario (0 = none); hitting it is reported.
	MaxExecs int
	// Setup configures the execution before it starts (NumWorkers, horizons).
	Setup func(x *vrt.Exec)
	// Body runs as thread 0.
	Body func(x *vrt.Exec)
	// Check is evaluated after the execution has ended.
	Check func(x *vrt.Exec) []Finding
	// NoCache disables happens-before state caching (pure stateless search).
	NoCache bool
	// Single marks a scenario that is one deterministic execution (NoBranch for its whole
	// length): one worker (chosen by the scenario's name) runs it instead of every worker
	// repeating it.
	Single bool
	// Journal makes the worker record the schedule it is about to run, so that a worker
	// killed by the runtime (fatal error, out of memory) is reported as a violation of
	// that execution instead of an internal failure.
	Journal bool
	// Outcome summarises the observable outcome (vacuity guard); may be nil.
	Outcome func(x *vrt.Exec) string
}

type Stats struct {
	Execs        int            `json:"execs"`
	Checked      int            `json:"checked"`
	Transitions  int            `json:"transitions"`
	BoundDone    int            `json:"bound_done"` // highest preemption bound fully explored (-1 none)
	Exhaustive   bool           `json:"exhaustive"`
	CapHit       string         `json:"cap_hit,omitempty"`
	Outcomes     map[string]int `json:"outcomes"`
	Horizon      int            `json:"horizon_hits"`
	Pruned       int            `json:"pruned_subtrees"`
	MaxPoints    int            `json:"max_points"`
	BodyParked   int            `json:"body_parked"` // checked executions that ended with the scenario's body thread still blocked
	Sample       []int          `json:"sample,omitempty"`
	SampleTrace  []string       `json:"sample_trace,omitempty"`
	InternalErrs []string       `json:"internal_errors,omitempty"`
}

type Violation struct {
	Scenario string   `json:"scenario"`
	Finding  Finding  `json:"finding"`
	Choices  []int    `json:"choices"`
	Cost     int      `json:"cost"`
	Trace    []string `json:"trace,omitempty"`
}

type result struct {
	Scenario   string      `json:"scenario"`
	Stats      Stats       `json:"stats"`
	Violations []Violation `json:"violations"`
}

type explorer struct {
	sc       *Scenario
	shard    int
	shards   int
	split    int
	bound    int // current preemption bound
	stats    *Stats
	viol     map[string]*Violation
	deadline time.Time
	stop     bool
	visited  map[uint64]struct{}
	pruned   int
}

//go:norace
func mix64(a, b uint64) uint64 {
	h := a ^ (b + 0x9e3779b97f4a7c15 + (a << 6) + (a >> 2))
	h ^= h >> 33
	h *= 0xff51afd7ed558ccd
	h ^= h >> 33
	return h
}

// transitionKey identifies "take alternative alt in the happens-before state of point p
// with the given budgets already spent".
//
//go:norace
func transitionKey(p vrt.Point, alt, pre, dev int) uint64 {
	ak := uint64(alt) + 0xa17
	if p.Kind == vrt.SchedPoint && alt < len(p.AltKeys) {
		ak = p.AltKeys[alt]
	}
	k := mix64(p.StateKey, ak)
	k = mix64(k, uint64(p.Kind)+1)
	return mix64(k, uint64(pre)<<16|uint64(dev))
}

// RunOnce runs one execution of sc with the given choice prefix.
//
//go:norace
func RunOnce(sc *Scenario, prefix []int) (*vrt.Exec, []Finding) {
	x := vrt.NewExec(prefix)
	if sc.Setup != nil {
		sc.Setup(x)
	}
	// crypto/rand is nondeterminism the explorer has to own (Noise ephemerals decide the
	// tie-break of simultaneous handshakes): every execution starts from the same seeded
	// stream, and each read is an event on a shared cell so that state caching never merges
	// prefixes that consumed it in a different order. Scenarios may re-seed (chlab does).
	pk.SeedRandom(0x5eed, func() {
		if cx := vrt.Cur(); cx != nil && !cx.Aborting() && cx.Me() != nil {
			cx.Touch(&cx.RandCell, 0x7a4d)
		}
	})
	x.Run(func() { sc.Body(x) })
	pk.RestoreRandom()
	var fs []Finding
	if len(x.Failed) > 0 {
		for _, f := range x.Failed {
			fs = append(fs, Finding{Kind: "INTERNAL", Site: "explorer", Detail: f})
		}
		return x, fs
	}
	if pv, stk := x.Panic(); pv != nil {
		fs = append(fs, Finding{Kind: "panic", Site: panicSite(stk), Detail: fmt.Sprintf("panic: %v", pv)})
	}
	if sc.Check != nil {
		fs = append(fs, sc.Check(x)...)
	}
	return x, fs
}

// panicSite extracts the first repository frame of a stack.
//
//go:norace
func panicSite(stk string) string {
	lines := strings.Split(stk, "\n")
	for _, l := range lines {
		l = strings.TrimSpace(l)
		if strings.HasPrefix(l, "/repo/") || strings.HasPrefix(l, "/verif/mc/cmd/") || strings.HasPrefix(l, "/verif/mc/sc/") || strings.HasPrefix(l, "/verif/mc/stacks/") {
			if i := strings.Index(l, " "); i > 0 {
				l = l[:i]
			}
			return strings.TrimPrefix(l, "/repo/")
		}
	}
	return "unknown"
}

var journalPath string
var journalFile *os.File

// writeJournal overwrites the journal record in place (one pwrite per execution): a
// fixed-width length followed by JSON.
//
//go:norace
func writeJournal(scenario string, prefix []int) {
	if journalFile == nil {
		f, err := os.OpenFile(journalPath, os.O_CREATE|os.O_RDWR, 0o644)
		if err != nil {
			return
		}
		journalFile = f
	}
	data, _ := json.Marshal(map[string]any{"scenario": scenario, "choices": prefix})
	rec := append([]byte(fmt.Sprintf("%08d", len(data))), data...)
	journalFile.WriteAt(rec, 0)
}

//go:norace
func readJournal(path string) []byte {
	data, err := os.ReadFile(path)
	if err != nil || len(data) < 8 {
		return nil
	}
	n, err := strconv.Atoi(string(data[:8]))
	if err != nil || 8+n > len(data) {
		return nil
	}
	return data[8 : 8+n]
}

//go:norace
func ownerOf(prefix []int, shards int) int {
	h := fnv.New32a()
	for _, c := range prefix {
		h.Write([]byte{byte(c), byte(c >> 8)})
	}
	return int(h.Sum32() % uint32(shards))
}

//go:norace
func costs(points []vrt.Point, upto int) (pre, dev int) {
	for i := 0; i < upto && i < len(points); i++ {
		p := points[i]
		c := int(p.Cost[p.Chosen])
		if p.Kind == vrt.SchedPoint {
			pre += c
		} else {
			dev += c
		}
	}
	return
}

//go:norace
func (e *explorer) explore(prefix []int, depth int) {
	if e.stop {
		return
	}
	if !e.deadline.IsZero() && time.Now().After(e.deadline) {
		e.stop = true
		e.stats.CapHit = "time budget"
		return
	}
	if e.sc.MaxExecs > 0 && e.stats.Execs >= e.sc.MaxExecs {
		e.stop = true
		e.stats.CapHit = fmt.Sprintf("max_execs=%d", e.sc.MaxExecs)
		return
	}
	owned := e.sc.Single || depth >= e.split || ownerOf(prefix, e.shards) == e.shard
	if e.sc.Journal && journalPath != "" {
		writeJournal(e.sc.Name, prefix)
	}
	x, fs := RunOnce(e.sc, prefix)
	e.stats.Execs++
	pts := x.Points
	pre, dev := costs(pts, len(prefix))
	if owned && pre == e.bound {
		// executions cheaper than the current bound were checked in an earlier pass
		e.stats.Checked++
		e.stats.Transitions += x.Steps
		if len(pts) > e.stats.MaxPoints {
			e.stats.MaxPoints = len(pts)
			e.stats.Sample = x.Choices()
		}
		if x.HorizonHit {
			e.stats.Horizon++
		}
		if len(x.Threads) > 0 && !x.Threads[0].Done {
			e.stats.BodyParked++
		}
		if e.sc.Outcome != nil {
			e.stats.Outcomes[e.sc.Outcome(x)]++
		}
		for _, f := range fs {
			if f.Kind == "INTERNAL" {
				e.stats.InternalErrs = append(e.stats.InternalErrs, f.Detail)
				continue
			}
			key := f.Kind + "|" + f.Site
			if old, ok := e.viol[key]; !ok || pre+dev < old.Cost {
				// confirm determinism before believing it
				_, fs2 := RunOnce(e.sc, x.Choices())
				same := false
				for _, g := range fs2 {
					if g.Kind == f.Kind && g.Site == f.Site {
						same = true
					}
				}
				if !same {
					e.stats.InternalErrs = append(e.stats.InternalErrs, fmt.Sprintf("non-deterministic replay of %s/%s in %s", f.Kind, f.Site, e.sc.Name))
					continue
				}
				e.viol[key] = &Violation{Scenario: e.sc.Name, Finding: f, Choices: x.Choices(), Cost: pre + dev, Trace: x.Log}
			}
		}
	}
	if e.visited != nil {
		// the default continuation of this run covers these transitions
		for i := len(prefix); i < len(pts); i++ {
			pre, dev := costs(pts, i)
			e.visited[transitionKey(pts[i], pts[i].Chosen, pre, dev)] = struct{}{}
		}
	}
	for i := len(prefix); i < len(pts); i++ {
		p := pts[i]
		pre, dev := costs(pts, i)
		for alt := 1; alt < p.Width; alt++ {
			np, nd := pre, dev
			if p.Kind == vrt.SchedPoint {
				np += int(p.Cost[alt])
			} else {
				nd += int(p.Cost[alt])
			}
			if np > e.bound || nd > e.sc.DB {
				continue
			}
			if e.visited != nil {
				// happens-before state caching: an equivalent prefix already took this
				// transition with the same budgets; its whole subtree has been explored
				k := transitionKey(p, alt, pre, dev)
				if _, seen := e.visited[k]; seen {
					e.pruned++
					continue
				}
				e.visited[k] = struct{}{}
			}
			child := make([]int, i+1)
			for j := 0; j < i; j++ {
				child[j] = pts[j].Chosen
			}
			child[i] = alt
			nd2 := depth + 1
			if nd2 == e.split && ownerOf(child, e.shards) != e.shard {
				continue // another shard owns this subtree
			}
			e.explore(child, nd2)
			if e.stop {
				return
			}
		}
	}
}

// exploreScenario runs the iterative bounding for one scenario in this shard.
//
//go:norace
// singleOwner spreads single-execution scenarios over the workers.
func singleOwner(name string, shards int) int {
	h := uint32(2166136261)
	for i := 0; i < len(name); i++ {
		h = (h ^ uint32(name[i])) * 16777619
	}
	return int(h % uint32(shards))
}

func exploreScenario(sc *Scenario, shard, shards int, deadline time.Time) result {
	if sc.Single && singleOwner(sc.Name, shards) != shard {
		return result{Scenario: sc.Name, Stats: Stats{Outcomes: map[string]int{}, BoundDone: sc.PB, Exhaustive: true}}
	}
	st := Stats{Outcomes: map[string]int{}, BoundDone: -1}
	e := &explorer{sc: sc, shard: shard, shards: shards, split: 2, stats: &st, viol: map[string]*Violation{}, deadline: deadline}
	if shards == 1 {
		e.split = 0
	}
	for b := 0; b <= sc.PB; b++ {
		e.bound = b
		if !sc.NoCache {
			e.visited = map[uint64]struct{}{}
		}
		e.explore(nil, 0)
		st.Pruned += e.pruned
		e.pruned = 0
		if e.stop {
			break
		}
		st.BoundDone = b
	}
	st.Exhaustive = !e.stop
	res := result{Scenario: sc.Name, Stats: st}
	keys := make([]string, 0, len(e.viol))
	for k := range e.viol {
		keys = append(keys, k)
	}
	sort.Strings(keys)
	for _, k := range keys {
		res.Violations = append(res.Violations, *e.viol[k])
	}
	return res
}

// Main is the entry point of every E1 check binary: parent mode spawns one worker
// process per shard and merges; worker mode explores its share and prints JSON lines.
//
//go:norace
func Main(run *evid.Run, scenarios []*Scenario, budget time.Duration) {
	if s := os.Getenv("VERIF_SHARD"); s != "" {
		parts := strings.Split(s, "/")
		shard, _ := strconv.Atoi(parts[0])
		shards, _ := strconv.Atoi(parts[1])
		var deadline time.Time
		if d := os.Getenv("VERIF_DEADLINE_UNIX"); d != "" {
			sec, _ := strconv.ParseInt(d, 10, 64)
			deadline = time.Unix(sec, 0)
		}
		only := os.Getenv("VERIF_ONLY")
		journalPath = os.Getenv("VERIF_JOURNAL")
		w := bufio.NewWriter(os.Stdout)
		var todo []*Scenario
		for _, sc := range scenarios {
			if only != "" && !strings.Contains(sc.Name, only) {
				continue
			}
			todo = append(todo, sc)
		}
		var results []result
		for i, sc := range todo {
			// every scenario gets an equal share of the remaining time budget
			scDeadline := deadline
			if !deadline.IsZero() {
				remaining := time.Until(deadline)
				if remaining < 0 {
					remaining = 0
				}
				scDeadline = time.Now().Add(remaining / time.Duration(len(todo)-i))
			}
			results = append(results, exploreScenario(sc, shard, shards, scDeadline))
		}
		// second pass: scenarios that ran out of their share are explored again (the search is
		// deterministic, so a longer run covers a superset) with the time the others left over
		var capped []int
		for i, r := range results {
			if !r.Stats.Exhaustive && r.Stats.CapHit == "time budget" {
				capped = append(capped, i)
			}
		}
		for j, i := range capped {
			remaining := time.Until(deadline)
			if deadline.IsZero() || remaining < 3*time.Second {
				break
			}
			r2 := exploreScenario(todo[i], shard, shards, time.Now().Add(remaining/time.Duration(len(capped)-j)))
			if r2.Stats.Exhaustive || r2.Stats.Execs >= results[i].Stats.Execs {
				seen := map[string]bool{}
				for _, v := range r2.Violations {
					seen[v.Finding.Kind+"|"+v.Finding.Site] = true
				}
				for _, v := range results[i].Violations {
					if !seen[v.Finding.Kind+"|"+v.Finding.Site] {
						r2.Violations = append(r2.Violations, v)
					}
				}
				results[i] = r2
			}
		}
		for _, res := range results {
			data, _ := json.Marshal(res)
			w.Write(data)
			w.WriteByte('\n')
		}
		w.Flush()
		os.Exit(0)
	}
	if rf := run.ReplayFile(); rf != "" {
		replay(run, scenarios, rf)
		return
	}
	if tr := os.Getenv("VERIF_TRACE"); tr != "" {
		// debugging aid: print the default execution of the matching scenarios and stop
		for _, sc := range scenarios {
			if !strings.Contains(sc.Name, tr) {
				continue
			}
			x, fs := RunOnce(sc, nil)
			fmt.Printf("=== %s: %d points, %d steps, deadlock=%v horizon=%v now=%v\n", sc.Name, len(x.Points), x.Steps, x.Deadlock, x.HorizonHit, x.Now)
			for _, p := range x.Points {
				fmt.Printf("  point %+v\n", p)
			}
			for _, l := range x.Log {
				fmt.Println("  log", l)
			}
			for _, t := range x.Parked() {
				fmt.Printf("  parked %s at %s\n", t.Name, t.Pending())
			}
			fmt.Printf("  findings %+v\n", fs)
			if sc.Outcome != nil {
				fmt.Println("  outcome", sc.Outcome(x))
			}
		}
		os.Exit(0)
	}
	if v := os.Getenv("VERIF_BUDGET_SCALE"); v != "" {
		// development aid (smoke-testing a tier's configurations quickly); never set by registered commands
		if f, err := strconv.ParseFloat(v, 64); err == nil && f > 0 {
			budget = time.Duration(float64(budget) * f)
		}
	}
	shards := runtime.NumCPU()
	if v := os.Getenv("VERIF_SHARDS"); v != "" {
		shards, _ = strconv.Atoi(v)
	}
	deadline := time.Now().Add(budget)
	var mu sync.Mutex
	merged := map[string]*result{}
	var wg sync.WaitGroup
	failed := false
	for i := 0; i < shards; i++ {
		wg.Add(1)
		go func(i int) {
			defer wg.Done()
			cmd := exec.Command(os.Args[0], "-tier", run.Tier)
			jp := fmt.Sprintf("%s/verif-journal-%d-%d", os.TempDir(), os.Getpid(), i)
			cmd.Env = append(os.Environ(), fmt.Sprintf("VERIF_SHARD=%d/%d", i, shards), fmt.Sprintf("VERIF_DEADLINE_UNIX=%d", deadline.Unix()), "GOMAXPROCS=2", "VERIF_JOURNAL="+jp)
			var stderr strings.Builder
			cmd.Stderr = &stderr
			out, err := cmd.Output()
			mu.Lock()
			defer mu.Unlock()
			defer os.Remove(jp)
			if err != nil {
				// a worker that was killed while running a journaled execution: that execution
				// terminated the process
				if data := readJournal(jp); len(data) > 0 {
					var j struct {
						Scenario string `json:"scenario"`
						Choices  []int  `json:"choices"`
					}
					if json.Unmarshal(data, &j) == nil && j.Scenario != "" {
						msg := lastLines(stderr.String(), 3)
						run.Violate(evid.Violation{Kind: "process-terminated", Site: j.Scenario, Detail: fmt.Sprintf("the worker process died (%v) while executing this schedule: %s", err, msg),
							Witness: map[string]any{"scenario": j.Scenario, "choices": j.Choices}})
						return
					}
				}
				os.Stderr.WriteString(stderr.String())
				fmt.Fprintf(os.Stderr, "shard %d failed: %v\n", i, err)
				failed = true
			} else {
				os.Stderr.WriteString(stderr.String())
			}
			for _, line := range strings.Split(string(out), "\n") {
				if strings.TrimSpace(line) == "" {
					continue
				}
				var r result
				if err := json.Unmarshal([]byte(line), &r); err != nil {
					fmt.Fprintf(os.Stderr, "shard %d: bad output line: %.200s\n", i, line)
					failed = true
					continue
				}
				m, ok := merged[r.Scenario]
				if !ok {
					rr := r
					rr.Stats.Outcomes = map[string]int{}
					rr.Stats.Exhaustive = true
					rr.Stats.BoundDone = 1 << 30
					rr.Stats.Execs, rr.Stats.Checked, rr.Stats.Transitions, rr.Stats.Horizon, rr.Stats.Pruned, rr.Stats.BodyParked = 0, 0, 0, 0, 0, 0
					rr.Violations = nil
					m = &rr
					merged[r.Scenario] = m
				}
				m.Stats.Execs += r.Stats.Execs
				m.Stats.Checked += r.Stats.Checked
				m.Stats.Transitions += r.Stats.Transitions
				m.Stats.Horizon += r.Stats.Horizon
				m.Stats.BodyParked += r.Stats.BodyParked
				m.Stats.Pruned += r.Stats.Pruned
				if r.Stats.BoundDone < m.Stats.BoundDone {
					m.Stats.BoundDone = r.Stats.BoundDone
				}
				if !r.Stats.Exhaustive {
					m.Stats.Exhaustive = false
					m.Stats.CapHit = r.Stats.CapHit
				}
				if r.Stats.MaxPoints > m.Stats.MaxPoints {
					m.Stats.MaxPoints = r.Stats.MaxPoints
					m.Stats.Sample = r.Stats.Sample
				}
				for k, v := range r.Stats.Outcomes {
					m.Stats.Outcomes[k] += v
				}
				m.Stats.InternalErrs = append(m.Stats.InternalErrs, r.Stats.InternalErrs...)
				m.Violations = append(m.Violations, r.Violations...)
			}
		}(i)
	}
	wg.Wait()
	if failed {
		fmt.Fprintln(os.Stderr, "INTERNAL: a worker shard failed; results are not trustworthy")
		os.Exit(2)
	}
	names := make([]string, 0, len(merged))
	for n := range merged {
		names = append(names, n)
	}
	sort.Strings(names)
	totalExecs, totalTrans, totalChecked := 0, 0, 0
	var bodyNeverFinished []string
	exhaustive := true
	var caps []string
	internal := 0
	for _, n := range names {
		m := merged[n]
		totalExecs += m.Stats.Execs
		totalChecked += m.Stats.Checked
		totalTrans += m.Stats.Transitions
		if !m.Stats.Exhaustive {
			exhaustive = false
			caps = append(caps, fmt.Sprintf("%s: %s (preemption bound completed: %d)", n, m.Stats.CapHit, m.Stats.BoundDone))
		}
		for k, v := range m.Stats.Outcomes {
			for i := 0; i < 1; i++ {
				run.Outcome(n + ": " + k)
			}
			_ = v
		}
		note := ""
		if m.Stats.Checked > 0 && m.Stats.BodyParked == m.Stats.Checked {
			// the scenario body never ran to its end in any execution: a set-up that blocks makes
			// everything after it unreachable (reported in the evidence, reviewed when a harness changes)
			note = " BODY-NEVER-FINISHED"
			bodyNeverFinished = append(bodyNeverFinished, n)
		}
		fmt.Printf("  scenario %-44s execs=%-8d checked=%-8d steps=%-9d pb_done=%d outcomes=%d horizon=%d pruned=%d exhaustive=%v%s\n", n, m.Stats.Execs, m.Stats.Checked, m.Stats.Transitions, m.Stats.BoundDone, len(m.Stats.Outcomes), m.Stats.Horizon, m.Stats.Pruned, m.Stats.Exhaustive, note)
		sched := m.Stats.Sample
		if sched == nil {
			sched = []int{}
		}
		run.Sample(map[string]any{"scenario": n, "schedule": sched, "outcomes": m.Stats.Outcomes})
		for _, ie := range m.Stats.InternalErrs {
			internal++
			fmt.Fprintln(os.Stderr, "INTERNAL:", ie)
		}
		// keep the cheapest witness per kind/site
		best := map[string]Violation{}
		for _, v := range m.Violations {
			k := v.Finding.Kind + "|" + v.Finding.Site
			if old, ok := best[k]; !ok || v.Cost < old.Cost || (v.Cost == old.Cost && len(v.Choices) < len(old.Choices)) {
				best[k] = v
			}
		}
		ks := make([]string, 0, len(best))
		for k := range best {
			ks = append(ks, k)
		}
		sort.Strings(ks)
		for _, k := range ks {
			v := best[k]
			run.Violate(evid.Violation{Kind: v.Finding.Kind, Site: v.Finding.Site, Detail: v.Finding.Detail,
				Witness: map[string]any{"scenario": v.Scenario, "choices": v.Choices, "cost": v.Cost, "trace": v.Trace}})
		}
	}
	if internal > 0 {
		fmt.Fprintln(os.Stderr, "INTERNAL: explorer self-check failed (non-deterministic replay or divergence)")
		os.Exit(2)
	}
	run.Set("states", totalChecked)
	run.Set("transitions", totalTrans)
	run.Set("traces_validated_against_impl", totalChecked)
	run.Set("executions_including_reruns", totalExecs)
	run.Set("scenarios", len(names))
	run.Set("exhaustive", exhaustive)
	run.Set("caps_hit", caps)
	if len(bodyNeverFinished) > 0 {
		run.Set("scenarios_whose_body_never_finished", bodyNeverFinished)
	}
	run.Set("explanation", "states = complete executions of the real (instrumented) code checked by the oracle, one per distinct schedule within the preemption/deviation bounds; transitions = scheduling points executed; every trace is an implementation trace")
}

//go:norace
func lastLines(s string, n int) string {
	lines := strings.Split(strings.TrimSpace(s), "\n")
	for i, l := range lines {
		if strings.HasPrefix(l, "fatal error") || strings.HasPrefix(l, "panic:") || strings.HasPrefix(l, "runtime:") {
			if i+n > len(lines) {
				n = len(lines) - i
			}
			return strings.Join(lines[i:i+n], " | ")
		}
	}
	if len(lines) > n {
		lines = lines[len(lines)-n:]
	}
	return strings.Join(lines, " | ")
}

//go:norace
func replay(run *evid.Run, scenarios []*Scenario, file string) {
	data, err := os.ReadFile(file)
	if err != nil {
		fmt.Fprintln(os.Stderr, err)
		os.Exit(2)
	}
	var v struct {
		Kind    string `json:"kind"`
		Site    string `json:"site"`
		Witness struct {
			Scenario string `json:"scenario"`
			Choices  []int  `json:"choices"`
		} `json:"witness"`
	}
	if err := json.Unmarshal(data, &v); err != nil {
		fmt.Fprintln(os.Stderr, err)
		os.Exit(2)
	}
	for _, sc := range scenarios {
		if sc.Name != v.Witness.Scenario {
			continue
		}
		x, fs := RunOnce(sc, v.Witness.Choices)
		fmt.Printf("replayed %s with %d choices: %d points, %d steps\n", sc.Name, len(v.Witness.Choices), len(x.Points), x.Steps)
		for _, l := range x.Log {
			fmt.Println("   ", l)
		}
		for _, t := range x.Parked() {
			fmt.Printf("    parked thread %d %s at %s\n", t.ID, t.Name, t.Pending())
		}
		for _, f := range fs {
			fmt.Printf("    finding kind=%s site=%s detail=%s\n", f.Kind, f.Site, f.Detail)
			run.Violate(evid.Violation{Kind: f.Kind, Site: f.Site, Detail: f.Detail, Witness: map[string]any{"scenario": sc.Name, "choices": v.Witness.Choices}})
		}
		run.Set("states", 1)
		run.Set("transitions", x.Steps)
		run.Finish()
	}
	fmt.Fprintln(os.Stderr, "scenario not found:", v.Witness.Scenario)
	os.Exit(2)
}

// InProcess explores one scenario in the calling process (no sharding); used by the
// engine self-test.
//
//go:norace
func InProcess(sc *Scenario) (Stats, []Violation) {
	r := exploreScenario(sc, 0, 1, time.Time{})
	return r.Stats, r.Violations
}
