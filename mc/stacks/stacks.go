// Package stacks builds the in-memory swarm stacks the E1 harnesses drive, behind a
// node-index based facade so that one harness body serves every address type.
package stacks

import (
	"context"
	"crypto/ed25519"
	"encoding/binary"
	"fmt"

	"go.brendoncarroll.net/p2p"
	"go.brendoncarroll.net/p2p/f/x509"
	"go.brendoncarroll.net/p2p/p/mbapp"
	"go.brendoncarroll.net/p2p/p/p2pmux"
	"go.brendoncarroll.net/p2p/s/fragswarm"
	"go.brendoncarroll.net/p2p/s/mapswarm"
	"go.brendoncarroll.net/p2p/s/memswarm"
	"go.brendoncarroll.net/p2p/s/multiswarm"
	"go.brendoncarroll.net/p2p/s/p2pkeswarm"
	"go.brendoncarroll.net/p2p/s/udpswarm"
	"go.brendoncarroll.net/p2p/s/wlswarm"
)

// Msg is a received message with addresses translated to node indices (-1 = unknown).
type Msg struct {
	Src, Dst int
	SrcText  string
	DstText  string
	Payload  []byte // the library's buffer (valid only inside the callback)
}

// Node is one participant of a stack.
type Node struct {
	Index    int
	Tell     func(ctx context.Context, dst int, v p2p.IOVec) error
	TellText func(ctx context.Context, dstText string, v p2p.IOVec) error // destination given as address text (e.g. a delivered source)
	Receive  func(ctx context.Context, fn func(Msg)) error
	Ask      func(ctx context.Context, resp []byte, dst int, v p2p.IOVec) (int, error)
	ServeAsk func(ctx context.Context, fn func(ctx context.Context, resp []byte, m Msg) int) error
	MTU      func() int
	Close    func() error
	Local    func() []string
}

type Stack struct {
	Name   string
	Nodes  []*Node
	HasAsk bool
	// PartSize is the payload size that fits one inner packet (0 if the stack does not fragment).
	PartSize int
	// Extra carries stack specific handles (e.g. other mux channels).
	Extra map[string]any
	// Raw is an extra participant attached directly to the innermost in-memory transport
	// (an adversary / foreign implementation that speaks the inner protocol by hand).
	Raw *Node
	// Underlying closes what the stack's own Close does not own (the transport below a
	// multiplexer); harnesses call it during tear-down.
	Underlying []func() error
}

func text(a p2p.Addr) string {
	b, err := a.MarshalText()
	if err != nil {
		return "ERR:" + err.Error()
	}
	return string(b)
}

// WrapSwarms builds the facade for swarms whose i-th element has address addrs[i].
func WrapSwarms[A p2p.Addr](swarms []p2p.Swarm[A], addrs []A) []*Node {
	index := map[string]int{}
	for i, a := range addrs {
		index[text(a)] = i
	}
	for i, s := range swarms {
		// a node may be reachable under several addresses (multi-transport swarms)
		for _, a := range s.LocalAddrs() {
			if _, ok := index[text(a)]; !ok {
				index[text(a)] = i
			}
		}
	}
	lookup := func(a A) int {
		if i, ok := index[text(a)]; ok {
			return i
		}
		return -1
	}
	var nodes []*Node
	for i := range swarms {
		s := swarms[i]
		n := &Node{Index: i}
		n.Tell = func(ctx context.Context, dst int, v p2p.IOVec) error { return s.Tell(ctx, addrs[dst], v) }
		n.TellText = func(ctx context.Context, dstText string, v p2p.IOVec) error {
			a, err := s.ParseAddr([]byte(dstText))
			if err != nil {
				return err
			}
			return s.Tell(ctx, a, v)
		}
		n.Receive = func(ctx context.Context, fn func(Msg)) error {
			return s.Receive(ctx, func(m p2p.Message[A]) {
				fn(Msg{Src: lookup(m.Src), Dst: lookup(m.Dst), SrcText: text(m.Src), DstText: text(m.Dst), Payload: m.Payload})
			})
		}
		n.MTU = s.MTU
		n.Close = s.Close
		n.Local = func() []string {
			var out []string
			for _, a := range s.LocalAddrs() {
				out = append(out, text(a))
			}
			return out
		}
		if as, ok := s.(p2p.AskSwarm[A]); ok {
			n.Ask = func(ctx context.Context, resp []byte, dst int, v p2p.IOVec) (int, error) {
				return as.Ask(ctx, resp, addrs[dst], v)
			}
			n.ServeAsk = func(ctx context.Context, fn func(context.Context, []byte, Msg) int) error {
				return as.ServeAsk(ctx, func(ctx context.Context, resp []byte, m p2p.Message[A]) int {
					return fn(ctx, resp, Msg{Src: lookup(m.Src), Dst: lookup(m.Dst), SrcText: text(m.Src), DstText: text(m.Dst), Payload: m.Payload})
				})
			}
		}
		nodes = append(nodes, n)
	}
	return nodes
}

// rawNode wraps a bare in-memory swarm whose peers are addressed by node index.
func rawNode(s p2p.Swarm[memswarm.Addr], addrs []memswarm.Addr) *Node {
	n := &Node{Index: -1}
	n.Tell = func(ctx context.Context, dst int, v p2p.IOVec) error { return s.Tell(ctx, addrs[dst], v) }
	n.Receive = func(ctx context.Context, fn func(Msg)) error {
		return s.Receive(ctx, func(m p2p.Message[memswarm.Addr]) {
			fn(Msg{Src: -1, Dst: -1, SrcText: text(m.Src), DstText: text(m.Dst), Payload: m.Payload})
		})
	}
	n.MTU = s.MTU
	n.Close = s.Close
	n.Local = func() []string { return []string{text(s.LocalAddrs()[0])} }
	return n
}

// Config selects and parametrises a stack.
type Config struct {
	Kind     string // see Kinds
	N        int    // number of nodes
	InnerMTU int    // MTU of the in-memory transport (0 = default 1<<16)
	MTU      int    // MTU declared for frag/mbapp layers
	QueueLen int    // inbound queue length of the in-memory transport
	Workers  int    // mbapp workers
}

var Kinds = []string{"mem", "frag", "mbapp", "mux-string", "mux-varint", "mux-uint16", "mux-uint32", "mux-uint64", "multi", "map", "wl", "p2pke", "frag-p2pke", "mux-frag", "mbapp-mux", "multi-p2pke", "multi-ask", "udp", "p2pke-udp"}

func memOpts(c Config) []memswarm.Option {
	var opts []memswarm.Option
	if c.InnerMTU > 0 {
		opts = append(opts, memswarm.WithMTU(c.InnerMTU))
	}
	ql := c.QueueLen
	if ql == 0 {
		ql = 8
	}
	opts = append(opts, memswarm.WithQueueLen(ql))
	return opts
}

// TestKeyN is the key with index i as used by package pk (pk.Key(i) == TestKeyN(i)).
func TestKeyN(i int) x509.PrivateKey { return TestKey(i) }

func TestKey(i int) x509.PrivateKey {
	seed := make([]byte, 32)
	binary.BigEndian.PutUint64(seed[24:], uint64(i)+1)
	pk := ed25519.NewKeyFromSeed(seed)
	algo, signer := x509.SignerFromStandard(pk)
	_ = signer
	return x509.PrivateKey{Algorithm: algo, Data: seed}
}

type upAddr struct{ memswarm.Addr }

func (a upAddr) MarshalText() ([]byte, error) { return []byte("up" + a.Addr.String()), nil }
func (a upAddr) String() string               { return "up" + a.Addr.String() }

func innerMTU(c Config) int {
	if c.InnerMTU > 0 {
		return c.InnerMTU
	}
	return 1 << 16
}

// Build constructs the stack. It must be called from inside a controlled execution
// (constructors spawn the stacks' background threads).
func Build(c Config) *Stack {
	st := &Stack{Name: c.Kind, Extra: map[string]any{}}
	n := c.N
	switch c.Kind {
	case "mem":
		r := memswarm.NewRealm(memOpts(c)...)
		sw := make([]p2p.Swarm[memswarm.Addr], n)
		addrs := make([]memswarm.Addr, n)
		for i := range sw {
			s := r.NewSwarm()
			sw[i], addrs[i] = s, s.LocalAddr()
		}
		st.Nodes, st.HasAsk = WrapSwarms(sw, addrs), true
	case "frag":
		r := memswarm.NewRealm(memOpts(c)...)
		sw := make([]p2p.Swarm[memswarm.Addr], n)
		addrs := make([]memswarm.Addr, n)
		for i := range sw {
			s := r.NewSwarm()
			sw[i], addrs[i] = fragswarm.New[memswarm.Addr](s, c.MTU), s.LocalAddr()
		}
		st.Nodes = WrapSwarms(sw, addrs)
		st.PartSize = innerMTU(c) - fragswarm.Overhead
		st.Raw = rawNode(r.NewSwarm(), addrs)
	case "mbapp":
		r := memswarm.NewSecureRealm[string](memOpts(c)...)
		sw := make([]p2p.Swarm[memswarm.Addr], n)
		addrs := make([]memswarm.Addr, n)
		w := c.Workers
		if w == 0 {
			w = 1
		}
		for i := range sw {
			s := r.NewSwarm(fmt.Sprintf("key%d", i))
			sw[i], addrs[i] = mbapp.New[memswarm.Addr, string](s, c.MTU, mbapp.WithNumWorkers(w)), s.LocalAddr()
		}
		st.Nodes, st.HasAsk = WrapSwarms(sw, addrs), true
		st.PartSize = innerMTU(c) - mbapp.HeaderSize
		st.Raw = rawNode(r.NewSwarm("rawkey"), addrs)
	case "mux-string", "mux-varint", "mux-uint16", "mux-uint32", "mux-uint64":
		r := memswarm.NewRealm(memOpts(c)...)
		sw := make([]p2p.Swarm[memswarm.Addr], n)
		other := make([]p2p.Swarm[memswarm.Addr], n)
		addrs := make([]memswarm.Addr, n)
		for i := range sw {
			s := r.NewSwarm()
			addrs[i] = s.LocalAddr()
			st.Underlying = append(st.Underlying, s.Close)
			switch c.Kind {
			case "mux-string":
				m := p2pmux.NewStringAskMux[memswarm.Addr](s)
				sw[i], other[i] = m.Open("chan-a"), m.Open("")
			case "mux-varint":
				m := p2pmux.NewVarintAskMux[memswarm.Addr](s)
				sw[i], other[i] = m.Open(300), m.Open(0)
			case "mux-uint16":
				m := p2pmux.NewUint16AskMux[memswarm.Addr](s)
				sw[i], other[i] = m.Open(0x0102), m.Open(0)
			case "mux-uint32":
				m := p2pmux.NewUint32AskMux[memswarm.Addr](s)
				sw[i], other[i] = m.Open(0x01020304), m.Open(0)
			case "mux-uint64":
				m := p2pmux.NewUint64AskMux[memswarm.Addr](s)
				sw[i], other[i] = m.Open(1<<63), m.Open(0)
			}
		}
		st.Nodes, st.HasAsk = WrapSwarms(sw, addrs), true
		st.Extra["other"] = WrapSwarms(other, addrs)
		rawSw := r.NewSwarm()
		st.Raw = rawNode(rawSw, addrs)
		st.Raw.Ask = func(ctx context.Context, resp []byte, dst int, v p2p.IOVec) (int, error) {
			return rawSw.Ask(ctx, resp, addrs[dst], v)
		}
	case "multi":
		ra := memswarm.NewRealm(memOpts(c)...)
		rb := memswarm.NewRealm(memOpts(c)...)
		sw := make([]p2p.Swarm[multiswarm.Addr], n)
		addrs := make([]multiswarm.Addr, n)
		for i := range sw {
			a, b := ra.NewSwarm(), rb.NewSwarm()
			sw[i] = multiswarm.New(map[string]multiswarm.DynSwarm{"a": multiswarm.WrapSwarm[memswarm.Addr](a), "b": multiswarm.WrapSwarm[memswarm.Addr](b)})
			// odd nodes are addressed through transport b
			if i%2 == 0 {
				addrs[i] = multiswarm.Addr{Scheme: "a", Addr: a.LocalAddr()}
			} else {
				addrs[i] = multiswarm.Addr{Scheme: "b", Addr: b.LocalAddr()}
			}
		}
		st.Nodes = WrapSwarms(sw, addrs)
	case "map":
		r := memswarm.NewRealm(memOpts(c)...)
		sw := make([]p2p.Swarm[upAddr], n)
		addrs := make([]upAddr, n)
		for i := range sw {
			s := r.NewSwarm()
			sw[i] = mapswarm.New[upAddr, memswarm.Addr](s, func(a upAddr) memswarm.Addr { return a.Addr }, func(b memswarm.Addr) upAddr { return upAddr{b} }, func(x []byte) (upAddr, error) {
				a, err := memswarm.ParseAddr(x[2:])
				return upAddr{a}, err
			})
			addrs[i] = upAddr{s.LocalAddr()}
		}
		st.Nodes = WrapSwarms(sw, addrs)
	case "wl":
		r := memswarm.NewSecureRealm[string](memOpts(c)...)
		sw := make([]p2p.Swarm[memswarm.Addr], n)
		addrs := make([]memswarm.Addr, n)
		for i := range sw {
			s := r.NewSwarm(fmt.Sprintf("key%d", i))
			addrs[i] = s.LocalAddr()
			sw[i] = wlswarm.WrapSecureAsk[memswarm.Addr, string](s, func(a memswarm.Addr) bool { return a.N != 99 })
		}
		st.Nodes, st.HasAsk = WrapSwarms(sw, addrs), true
	case "p2pke":
		r := memswarm.NewRealm(memOpts(c)...)
		sw := make([]p2p.Swarm[p2pkeswarm.Addr[memswarm.Addr]], n)
		addrs := make([]p2pkeswarm.Addr[memswarm.Addr], n)
		for i := range sw {
			s := r.NewSwarm()
			ks := p2pkeswarm.New[memswarm.Addr](s, TestKey(i))
			sw[i], addrs[i] = ks, ks.LocalAddrs()[0]
		}
		st.Nodes = WrapSwarms(sw, addrs)
		inner := make([]memswarm.Addr, n)
		for i := range inner {
			inner[i] = addrs[i].Addr
		}
		st.Raw = rawNode(r.NewSwarm(), inner)
	case "udp":
		// the real udpswarm over the virtual network (package net is shimmed by vnet)
		sw := make([]p2p.Swarm[udpswarm.Addr], n)
		addrs := make([]udpswarm.Addr, n)
		for i := range sw {
			s, err := udpswarm.New("127.0.0.1:0")
			if err != nil {
				panic(err)
			}
			sw[i], addrs[i] = s, s.LocalAddrs()[0]
		}
		st.Nodes = WrapSwarms(sw, addrs)
	case "p2pke-udp":
		sw := make([]p2p.Swarm[p2pkeswarm.Addr[udpswarm.Addr]], n)
		addrs := make([]p2pkeswarm.Addr[udpswarm.Addr], n)
		for i := range sw {
			s, err := udpswarm.New("127.0.0.1:0")
			if err != nil {
				panic(err)
			}
			ks := p2pkeswarm.New[udpswarm.Addr](s, TestKey(i))
			sw[i], addrs[i] = ks, ks.LocalAddrs()[0]
		}
		st.Nodes = WrapSwarms(sw, addrs)
	case "frag-p2pke":
		r := memswarm.NewRealm(memOpts(c)...)
		sw := make([]p2p.Swarm[p2pkeswarm.Addr[memswarm.Addr]], n)
		addrs := make([]p2pkeswarm.Addr[memswarm.Addr], n)
		for i := range sw {
			s := r.NewSwarm()
			ks := p2pkeswarm.New[memswarm.Addr](s, TestKey(i))
			sw[i], addrs[i] = fragswarm.New[p2pkeswarm.Addr[memswarm.Addr]](ks, c.MTU), ks.LocalAddrs()[0]
		}
		st.Nodes = WrapSwarms(sw, addrs)
		st.PartSize = innerMTU(c) - p2pkeswarm.Overhead - fragswarm.Overhead
	case "mux-frag":
		r := memswarm.NewRealm(memOpts(c)...)
		sw := make([]p2p.Swarm[memswarm.Addr], n)
		addrs := make([]memswarm.Addr, n)
		for i := range sw {
			s := r.NewSwarm()
			addrs[i] = s.LocalAddr()
			f := fragswarm.New[memswarm.Addr](s, c.MTU)
			st.Underlying = append(st.Underlying, f.Close)
			sw[i] = p2pmux.NewStringMux[memswarm.Addr](f).Open("x")
		}
		st.Nodes = WrapSwarms(sw, addrs)
		st.PartSize = innerMTU(c) - fragswarm.Overhead
	case "mbapp-mux":
		r := memswarm.NewSecureRealm[string](memOpts(c)...)
		sw := make([]p2p.Swarm[memswarm.Addr], n)
		addrs := make([]memswarm.Addr, n)
		for i := range sw {
			s := r.NewSwarm(fmt.Sprintf("key%d", i))
			addrs[i] = s.LocalAddr()
			st.Underlying = append(st.Underlying, s.Close)
			m := p2pmux.NewStringSecureMux[memswarm.Addr, string](s).Open("mb")
			sw[i] = mbapp.New[memswarm.Addr, string](m, c.MTU, mbapp.WithNumWorkers(1))
		}
		st.Nodes, st.HasAsk = WrapSwarms(sw, addrs), true
	case "multi-p2pke":
		r := memswarm.NewRealm(memOpts(c)...)
		sw := make([]p2p.Swarm[multiswarm.Addr], n)
		addrs := make([]multiswarm.Addr, n)
		for i := range sw {
			s := r.NewSwarm()
			ks := p2pkeswarm.New[memswarm.Addr](s, TestKey(i))
			sw[i] = multiswarm.NewSecure[x509.PublicKey](map[string]multiswarm.DynSecureSwarm[x509.PublicKey]{"ke": multiswarm.WrapSecureSwarm[p2pkeswarm.Addr[memswarm.Addr], x509.PublicKey](ks)})
			addrs[i] = multiswarm.Addr{Scheme: "ke", Addr: ks.LocalAddrs()[0]}
		}
		st.Nodes = WrapSwarms(sw, addrs)
	case "multi-ask":
		r := memswarm.NewSecureRealm[string](memOpts(c)...)
		sw := make([]p2p.Swarm[multiswarm.Addr], n)
		addrs := make([]multiswarm.Addr, n)
		for i := range sw {
			s := r.NewSwarm(fmt.Sprintf("key%d", i))
			sw[i] = multiswarm.NewSecureAsk[string](map[string]multiswarm.DynSecureAskSwarm[string]{"m": multiswarm.WrapSecureAskSwarm[memswarm.Addr, string](s)})
			addrs[i] = multiswarm.Addr{Scheme: "m", Addr: s.LocalAddr()}
		}
		st.Nodes, st.HasAsk = WrapSwarms(sw, addrs), true
	case "multi-failclose":
		// like "multi", but transport "a" (first in key order) reports an error from Close after
		// closing: a fault at Close time must not leave the other transport or the hubs open
		ra := memswarm.NewRealm(memOpts(c)...)
		rb := memswarm.NewRealm(memOpts(c)...)
		sw := make([]p2p.Swarm[multiswarm.Addr], n)
		addrs := make([]multiswarm.Addr, n)
		for i := range sw {
			a, b := ra.NewSwarm(), rb.NewSwarm()
			sw[i] = multiswarm.New(map[string]multiswarm.DynSwarm{"a": multiswarm.WrapSwarm[memswarm.Addr](failCloseSwarm{a}), "b": multiswarm.WrapSwarm[memswarm.Addr](b)})
			addrs[i] = multiswarm.Addr{Scheme: "b", Addr: b.LocalAddr()}
		}
		st.Nodes = WrapSwarms(sw, addrs)
	case "multi-ask-failclose":
		ra := memswarm.NewSecureRealm[string](memOpts(c)...)
		rb := memswarm.NewSecureRealm[string](memOpts(c)...)
		sw := make([]p2p.Swarm[multiswarm.Addr], n)
		addrs := make([]multiswarm.Addr, n)
		for i := range sw {
			a, b := ra.NewSwarm(fmt.Sprintf("key%d", i)), rb.NewSwarm(fmt.Sprintf("key%d", i))
			sw[i] = multiswarm.NewSecureAsk[string](map[string]multiswarm.DynSecureAskSwarm[string]{
				"a": multiswarm.WrapSecureAskSwarm[memswarm.Addr, string](failCloseAskSwarm{a}),
				"b": multiswarm.WrapSecureAskSwarm[memswarm.Addr, string](b)})
			addrs[i] = multiswarm.Addr{Scheme: "b", Addr: b.LocalAddr()}
		}
		st.Nodes, st.HasAsk = WrapSwarms(sw, addrs), true
	default:
		panic("unknown stack kind " + c.Kind)
	}
	return st
}

// failCloseSwarm closes its transport and then reports an error (a socket that was already
// shut down underneath the swarm behaves like this).
type failCloseSwarm struct{ p2p.Swarm[memswarm.Addr] }

func (f failCloseSwarm) Close() error {
	f.Swarm.Close()
	return fmt.Errorf("transport reported an error while closing")
}

type failCloseAskSwarm struct {
	p2p.SecureAskSwarm[memswarm.Addr, string]
}

func (f failCloseAskSwarm) Close() error {
	f.SecureAskSwarm.Close()
	return fmt.Errorf("transport reported an error while closing")
}
