// Package hx holds helpers shared by the E1 harnesses.
package hx

import (
	"context"

	"verifmc/vrt"
	"verifmc/vrt/vctx"
)

// Cell makes harness-level shared state (ledgers, flags) part of the happens-before
// relation: every access that other threads may observe must Touch it, otherwise the
// explorer's state caching could merge prefixes that differ in harness state.
type Cell struct{ hb uint64 }

//go:norace
func (c *Cell) Touch() {
	if x := vrt.Cur(); x != nil && !x.Aborting() && x.Me() != nil {
		x.Touch(&c.hb, 0x109)
	}
}

// WithCancel returns a context whose cancellation is visible to the explorer.
//
//go:norace
func WithCancel(parent context.Context) (context.Context, context.CancelFunc) {
	return vctx.WithCancel(parent)
}

// WaitUntil parks the calling thread until cond holds (cond reads harness state that is
// protected by a Cell).
//
//go:norace
func WaitUntil(c *Cell, desc string, cond func() bool) {
	x := vrt.Cur()
	if x == nil || x.Aborting() {
		return
	}
	x.Yield(cond, desc)
	c.Touch()
}

// WaitQuiescent parks the calling thread until no other thread can make progress
// (branching stays on while the others run).
//
//go:norace
func WaitQuiescent(c *Cell) {
	x := vrt.Cur()
	if x == nil || x.Aborting() {
		return
	}
	me := x.Me()
	x.Yield(func() bool { return x.OthersIdle(me) }, "wait for quiescence")
	c.Touch()
}
