// Package chlab is the laboratory the Channel-level checks (C02 channel part, C05, C07)
// share: real p2pke.Channel objects whose transport is the harness. Every packet a
// channel emits is captured; the adversary (an explorer-driven thread) decides what is
// delivered to whom, dropped, duplicated, and when timers fire. Scheduling inside the
// library is deterministic (each handler is one critical section); the adversary's
// choices are the explored nondeterminism.
package chlab

import (
	"context"
	"encoding/binary"
	"fmt"
	"time"

	"go.brendoncarroll.net/p2p"
	"go.brendoncarroll.net/p2p/f/x509"
	"go.brendoncarroll.net/p2p/p/p2pke"

	"verifmc/hx"
	"verifmc/pk"
	"verifmc/vrt"
)

type Packet struct {
	From  *Node
	Seq   int
	Data  []byte
	Kind  string // IH RH ID RD DATA
	AtNow time.Duration
	Gen   int // generation of the sender when the packet was emitted
}

type Node struct {
	Name   string
	KeyIdx int
	Ch     *p2pke.Channel
	Accept func(*x509.PublicKey) bool
	lab    *Lab
	Peer   *Node // default destination of this node's packets
	Gen    int   // incremented on restart

	Received     []string // plaintexts handed to the application
	ReceivedRaw  [][]byte // the very slices Deliver returned (not copied): the caller owns them
	ReceivedFrom []string // RemoteKey name at the time of each receipt
	SendStarted  int
	SendReturned int
	SendOK       int
	SendErrs     []string
	KeyHistory   []string // distinct non-zero RemoteKey values observed, in order
	DataSentTo   []string // RemoteKey name at the time a data-range packet was emitted
	InitHellos   int
}

type Timing struct {
	KeepAlive, Handshake, Rekey, Reject time.Duration
}

type Lab struct {
	X      *vrt.Exec
	Cell   hx.Cell
	Nodes  []*Node
	Flight []*Packet // captured, not yet delivered or dropped
	seq    int
	Timing Timing
	Trace  []string
	// GhostDelivered lists packets of a pre-restart incarnation delivered after the restart.
	GhostDelivered []string
	cancels        []context.CancelFunc
	closing        bool
}

func New(x *vrt.Exec, t Timing, seed uint64) *Lab {
	l := &Lab{X: x, Timing: t}
	pk.SeedRandom(seed, func() {
		if cx := vrt.Cur(); cx != nil && !cx.Aborting() && cx.Me() != nil {
			cx.Touch(&cx.RandCell, 0x7a4d)
		}
	})
	return l
}

func (l *Lab) Close() {
	l.closing = true
	for _, cf := range l.cancels {
		cf()
	}
	pk.RestoreRandom()
}

func KeyName(k x509.PublicKey) string {
	if k.IsZero() {
		return ""
	}
	for i := 0; i < 4; i++ {
		p := pk.Pub(i)
		if x509.EqualPublicKeys(&p, &k) {
			return string(rune('a' + i))
		}
	}
	return "?"
}

func kind(b []byte) string {
	if len(b) < 4 {
		return "??"
	}
	switch n := binary.BigEndian.Uint32(b[:4]); n {
	case 0:
		return "IH"
	case 1:
		return "RH"
	case 2:
		return "ID"
	case 3:
		return "RD"
	default:
		return "DATA"
	}
}

// Due runs every timer that is due at the current virtual time (zero-delay timers are
// not under the adversary's control: they fire "now").
func (l *Lab) Due() {
	for i := 0; i < 64; i++ {
		when, ok := l.X.NextTimer()
		if !ok || when > l.X.Now {
			return
		}
		l.X.FireNextTimer()
		l.X.Settle()
	}
}

func (l *Lab) logf(format string, args ...any) {
	l.Trace = append(l.Trace, fmt.Sprintf(format, args...))
	if len(l.X.Log) < 4000 {
		l.X.Logf("t=%v %s", l.X.Now, fmt.Sprintf(format, args...))
	}
}

// NewNode creates a channel with the given key and acceptance predicate.
func (l *Lab) NewNode(name string, keyIdx int, accept func(*x509.PublicKey) bool) *Node {
	n := &Node{Name: name, KeyIdx: keyIdx, Accept: accept, lab: l}
	n.build()
	l.Nodes = append(l.Nodes, n)
	return n
}

func (n *Node) build() {
	l := n.lab
	gen := n.Gen
	n.Ch = p2pke.NewChannel(p2pke.ChannelConfig{
		PrivateKey: pk.Key(n.KeyIdx),
		Logger:     pk.Nop,
		AcceptKey:  n.Accept,
		Send: func(b []byte) {
			if gen != n.Gen {
				return // packets of a channel that was restarted away
			}
			l.Cell.Touch()
			l.seq++
			p := &Packet{From: n, Seq: l.seq, Data: append([]byte{}, b...), Kind: kind(b), AtNow: l.X.Now, Gen: gen}
			if p.Kind == "DATA" {
				n.DataSentTo = append(n.DataSentTo, KeyName(n.Ch.RemoteKey()))
			}
			if p.Kind == "IH" {
				n.InitHellos++
			}
			l.Flight = append(l.Flight, p)
		},
		KeepAliveTimeout: l.Timing.KeepAlive,
		HandshakeBackoff: l.Timing.Handshake,
		RekeyAfterTime:   l.Timing.Rekey,
		RejectAfterTime:  l.Timing.Reject,
	})
}

// Restart replaces the node's channel by a fresh one with the same key (peer reboot).
func (n *Node) Restart() {
	n.Ch.Close()
	n.Gen++
	// the restarted process has no memory of earlier calls
	n.SendStarted, n.SendReturned, n.SendOK, n.SendErrs = 0, 0, 0, nil
	n.build()
	n.lab.logf("restart(%s)", n.Name)
	n.lab.X.Settle()
	n.lab.Due()
}

func (n *Node) noteKey() {
	k := KeyName(n.Ch.RemoteKey())
	if k != "" && (len(n.KeyHistory) == 0 || n.KeyHistory[len(n.KeyHistory)-1] != k) {
		n.KeyHistory = append(n.KeyHistory, k)
	}
}

// StartSend launches a blocking Channel.Send in its own thread.
func (l *Lab) StartSend(n *Node, payload string) {
	n.SendStarted++
	ctx, cf := hx.WithCancel(context.Background())
	l.cancels = append(l.cancels, cf)
	gen := n.Gen
	ch := n.Ch
	l.logf("send(%s,%q)", n.Name, payload)
	vrt.Go("send-"+n.Name, func() {
		err := ch.Send(ctx, p2p.IOVec{[]byte(payload)})
		l.Cell.Touch()
		if gen == n.Gen && !l.closing {
			n.SendReturned++
			if err == nil {
				n.SendOK++
				n.noteKey()
			} else {
				n.SendErrs = append(n.SendErrs, err.Error())
			}
		}
	})
	l.X.Settle()
	l.Due()
}

// SendNow calls Channel.Send in the calling thread (for scenarios that explore the
// interleavings of concurrent Sends themselves).
func (l *Lab) SendNow(n *Node, payload string) error {
	ctx, cf := hx.WithCancel(context.Background())
	l.cancels = append(l.cancels, cf)
	n.SendStarted++
	err := n.Ch.Send(ctx, p2p.IOVec{[]byte(payload)})
	n.SendReturned++
	if err == nil {
		n.SendOK++
	}
	return err
}

// Deliver hands packet p to node to (removing it from flight unless keep is set).
func (l *Lab) Deliver(p *Packet, to *Node, keep bool) {
	if !keep {
		l.remove(p)
	}
	l.logf("deliver(%s#%d %s -> %s)%s", p.From.Name, p.Seq, p.Kind, to.Name, map[bool]string{true: " [dup]", false: ""}[keep])
	if p.Gen != p.From.Gen {
		l.GhostDelivered = append(l.GhostDelivered, p.Kind)
	}
	out, err := to.Ch.Deliver(nil, p.Data)
	l.Cell.Touch()
	if err == nil && out != nil {
		to.Received = append(to.Received, string(out))
		to.ReceivedRaw = append(to.ReceivedRaw, out)
		to.ReceivedFrom = append(to.ReceivedFrom, KeyName(to.Ch.RemoteKey()))
	}
	to.noteKey()
	l.X.Settle()
	l.Due()
	for _, n := range l.Nodes {
		n.noteKey()
	}
}

func (l *Lab) Drop(p *Packet) {
	l.remove(p)
	l.logf("drop(%s#%d %s)", p.From.Name, p.Seq, p.Kind)
}

func (l *Lab) remove(p *Packet) {
	for i, q := range l.Flight {
		if q == p {
			l.Flight = append(l.Flight[:i:i], l.Flight[i+1:]...)
			return
		}
	}
}

// Fire advances virtual time to the earliest pending timer and runs it.
func (l *Lab) Fire() bool {
	when, ok := l.X.NextTimer()
	if !ok {
		return false
	}
	l.logf("fire(timer@%v)", when)
	l.X.FireNextTimer()
	l.X.Settle()
	l.Due()
	for _, n := range l.Nodes {
		n.noteKey()
	}
	return true
}

// FairSuffix delivers everything in flight promptly and in order to the sender's peer and
// fires timers when nothing is in flight, until done() holds or the virtual horizon passes.
func (l *Lab) FairSuffix(horizon time.Duration, done func() bool) (elapsed time.Duration, ok bool) {
	start := l.X.Now
	l.logf("--- fair suffix ---")
	for steps := 0; steps < 4000; steps++ {
		if done() {
			return l.X.Now - start, true
		}
		if len(l.Flight) > 0 {
			p := l.Flight[0]
			if p.From.Peer == nil {
				l.Drop(p)
				continue
			}
			l.Deliver(p, p.From.Peer, false)
			continue
		}
		when, has := l.X.NextTimer()
		if !has || when-start > horizon {
			return l.X.Now - start, done()
		}
		l.Fire()
	}
	return l.X.Now - start, done()
}

// ChangedAfterDelivery lists the plaintexts whose bytes changed after Channel.Deliver had
// returned them (Deliver(nil, x) hands the caller a slice it owns).
func (n *Node) ChangedAfterDelivery() []string {
	var out []string
	for i, raw := range n.ReceivedRaw {
		if string(raw) != n.Received[i] {
			out = append(out, fmt.Sprintf("%q now reads %q", n.Received[i], string(raw)))
		}
	}
	return out
}

// Inject hands adversary-made bytes to node to and returns the packets the node emitted in
// response (they are taken out of flight: the adversary keeps them).
func (l *Lab) Inject(to *Node, data []byte, what string) []*Packet {
	l.logf("inject(%s -> %s)", what, to.Name)
	before := map[*Packet]bool{}
	for _, p := range l.Flight {
		before[p] = true
	}
	out, err := to.Ch.Deliver(nil, data)
	l.Cell.Touch()
	if err == nil && out != nil {
		to.Received = append(to.Received, string(out))
		to.ReceivedRaw = append(to.ReceivedRaw, out)
		to.ReceivedFrom = append(to.ReceivedFrom, KeyName(to.Ch.RemoteKey()))
	}
	to.noteKey()
	l.X.Settle()
	l.Due()
	var resp []*Packet
	for _, p := range append([]*Packet{}, l.Flight...) {
		if !before[p] && p.From == to {
			resp = append(resp, p)
			l.remove(p)
		}
	}
	return resp
}
