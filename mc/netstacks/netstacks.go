// Package netstacks builds the stacks whose transports live in third-party code with their
// own goroutines and kernel sockets (sshswarm over TCP, quicswarm over UDP and over the
// in-memory transport). They cannot run under the controlled scheduler; the free-running
// helper binaries (cmd/<id>net) use them to enumerate call configurations on loopback.
package netstacks

import (
	"context"
	"crypto/ed25519"
	"fmt"

	"golang.org/x/crypto/ssh"

	"go.brendoncarroll.net/p2p"
	"go.brendoncarroll.net/p2p/s/memswarm"
	"go.brendoncarroll.net/p2p/s/quicswarm"
	"go.brendoncarroll.net/p2p/s/sshswarm"
	"go.brendoncarroll.net/p2p/s/udpswarm"

	"verifmc/stacks"
)

var Kinds = []string{"ssh", "quic-udp", "quic-mem"}

func SSHSigner(seed byte) ssh.Signer {
	s := make([]byte, 32)
	s[0] = seed
	signer, err := ssh.NewSignerFromSigner(ed25519.NewKeyFromSeed(s))
	if err != nil {
		panic(err)
	}
	return signer
}

// Build returns n nodes of the given kind behind the node-index facade of package stacks.
func Build(kind string, n int) (*stacks.Stack, error) {
	st := &stacks.Stack{Name: kind, HasAsk: true, Extra: map[string]any{}}
	switch kind {
	case "ssh":
		sw := make([]p2p.Swarm[sshswarm.Addr], n)
		addrs := make([]sshswarm.Addr, n)
		for i := range sw {
			s, err := sshswarm.New("127.0.0.1:0", SSHSigner(byte(i+1)))
			if err != nil {
				return nil, err
			}
			sw[i], addrs[i] = s, s.LocalAddrs()[0]
		}
		st.Nodes = stacks.WrapSwarms(sw, addrs)
		st.Extra["lookup"] = func(ctx context.Context, from, to int) error {
			_, err := sw[from].(*sshswarm.Swarm).LookupPublicKey(ctx, addrs[to])
			return err
		}
	case "quic-udp":
		sw := make([]p2p.Swarm[quicswarm.Addr[udpswarm.Addr]], n)
		addrs := make([]quicswarm.Addr[udpswarm.Addr], n)
		for i := range sw {
			s, err := quicswarm.NewOnUDP("127.0.0.1:0", stacks.TestKey(i))
			if err != nil {
				return nil, err
			}
			sw[i], addrs[i] = s, s.LocalAddrs()[0]
		}
		st.Nodes = stacks.WrapSwarms(sw, addrs)
		st.Extra["lookup"] = func(ctx context.Context, from, to int) error {
			_, err := sw[from].(*quicswarm.Swarm[udpswarm.Addr]).LookupPublicKey(ctx, addrs[to])
			return err
		}
	case "quic-mem":
		r := memswarm.NewRealm(memswarm.WithQueueLen(1024))
		sw := make([]p2p.Swarm[quicswarm.Addr[memswarm.Addr]], n)
		addrs := make([]quicswarm.Addr[memswarm.Addr], n)
		for i := range sw {
			s, err := quicswarm.New[memswarm.Addr](r.NewSwarm(), stacks.TestKey(i))
			if err != nil {
				return nil, err
			}
			sw[i], addrs[i] = s, s.LocalAddrs()[0]
		}
		st.Nodes = stacks.WrapSwarms(sw, addrs)
		st.Extra["lookup"] = func(ctx context.Context, from, to int) error {
			_, err := sw[from].(*quicswarm.Swarm[memswarm.Addr]).LookupPublicKey(ctx, addrs[to])
			return err
		}
	default:
		return nil, fmt.Errorf("netstacks: unknown kind %q", kind)
	}
	return st, nil
}
