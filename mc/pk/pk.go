// Package pk holds helpers shared by the p2pke checks: deterministic keys and randomness.
package pk

import (
	"crypto/ed25519"
	crand "crypto/rand"
	"crypto/sha256"
	"encoding/binary"
	"io"
	"sync"

	"go.uber.org/zap"

	"go.brendoncarroll.net/p2p/f/x509"
)

var (
	cacheMu  sync.Mutex
	keyCache = map[int]x509.PrivateKey{}
	pubCache = map[int]x509.PublicKey{}
)

// Key returns the i-th deterministic Ed25519 signing key.
func Key(i int) x509.PrivateKey {
	cacheMu.Lock()
	defer cacheMu.Unlock()
	if k, ok := keyCache[i]; ok {
		return k
	}
	k := makeKey(i)
	keyCache[i] = k
	return k
}

func makeKey(i int) x509.PrivateKey {
	seed := make([]byte, 32)
	binary.BigEndian.PutUint64(seed[24:], uint64(i)+1)
	pk := ed25519.NewKeyFromSeed(seed)
	algo, _ := x509.SignerFromStandard(pk)
	return x509.PrivateKey{Algorithm: algo, Data: seed}
}

func Pub(i int) x509.PublicKey {
	cacheMu.Lock()
	if p, ok := pubCache[i]; ok {
		cacheMu.Unlock()
		return p
	}
	cacheMu.Unlock()
	p := makePub(i)
	cacheMu.Lock()
	pubCache[i] = p
	cacheMu.Unlock()
	return p
}

func makePub(i int) x509.PublicKey {
	priv := Key(i)
	pub, err := x509.DefaultRegistry().PublicFromPrivate(&priv)
	if err != nil {
		panic(err)
	}
	return pub
}

var Nop = zap.NewNop()

// detReader is a deterministic byte stream (SHA-256 in counter mode).
type detReader struct {
	mu   sync.Mutex
	seed [32]byte
	ctr  uint64
	buf  []byte
	Hook func() // called on every read (lets E1 attribute the read to a shared cell)
}

func (r *detReader) Read(p []byte) (int, error) {
	r.mu.Lock()
	defer r.mu.Unlock()
	if r.Hook != nil {
		r.Hook()
	}
	for i := range p {
		if len(r.buf) == 0 {
			var in [40]byte
			copy(in[:], r.seed[:])
			binary.BigEndian.PutUint64(in[32:], r.ctr)
			r.ctr++
			h := sha256.Sum256(in[:])
			r.buf = h[:]
		}
		p[i] = r.buf[0]
		r.buf = r.buf[1:]
	}
	return len(p), nil
}

var realReader = crand.Reader

// SeedRandom replaces crypto/rand.Reader with a deterministic stream; RestoreRandom undoes it.
func SeedRandom(seed uint64, hook func()) io.Reader {
	r := &detReader{Hook: hook}
	binary.BigEndian.PutUint64(r.seed[:], seed)
	crand.Reader = r
	return r
}

func RestoreRandom() { crand.Reader = realReader }
