// Package netrows is the glue for the free-running rows (QUIC/SSH/UDP stacks that the
// controlled scheduler cannot own): a plain (uninstrumented) helper binary enumerates its
// cases and prints JSON lines; the property's main check merges them into its evidence.
package netrows

import (
	"bufio"
	"encoding/json"
	"fmt"
	"os"
	"os/exec"
	"strings"

	"verifmc/evid"
)

type Line struct {
	Kind    string         `json:"kind,omitempty"`
	Site    string         `json:"site,omitempty"`
	Detail  string         `json:"detail,omitempty"`
	Witness any            `json:"witness,omitempty"`
	Stats   map[string]int `json:"stats,omitempty"`
	Sample  any            `json:"sample,omitempty"`
	Note    string         `json:"note,omitempty"`
}

// Emit is used by the helper binaries.
type Emitter struct{ w *bufio.Writer }

func NewEmitter() *Emitter { return &Emitter{w: bufio.NewWriter(os.Stdout)} }

func (e *Emitter) put(l Line) {
	data, _ := json.Marshal(l)
	e.w.Write(data)
	e.w.WriteByte('\n')
	e.w.Flush()
}

func (e *Emitter) Violation(kind, site, detail string, witness any) {
	e.put(Line{Kind: kind, Site: site, Detail: detail, Witness: witness})
}
func (e *Emitter) Stats(m map[string]int) { e.put(Line{Stats: m}) }
func (e *Emitter) Sample(v any)           { e.put(Line{Sample: v}) }
func (e *Emitter) Note(s string)          { e.put(Line{Note: s}) }

// Run executes the helper named by $VERIF_NET_BIN (built by bin/check next to the main
// harness) and merges its findings. Returns false if there is no helper.
func Run(run *evid.Run, args ...string) bool {
	bin := os.Getenv("VERIF_NET_BIN")
	if bin == "" || os.Getenv("VERIF_SHARD") != "" || run.ReplayFile() != "" {
		return false
	}
	cmd := exec.Command(bin, append([]string{"-tier", run.Tier}, args...)...)
	cmd.Stderr = os.Stderr
	out, err := cmd.Output()
	if err != nil {
		fmt.Fprintf(os.Stderr, "INTERNAL: network-row helper failed: %v\n", err)
		os.Exit(2)
	}
	for _, ln := range strings.Split(string(out), "\n") {
		if strings.TrimSpace(ln) == "" || !strings.HasPrefix(ln, "{") {
			continue
		}
		var l Line
		if json.Unmarshal([]byte(ln), &l) != nil {
			continue
		}
		switch {
		case l.Kind != "":
			run.Violate(evid.Violation{Kind: l.Kind, Site: l.Site, Detail: l.Detail, Witness: l.Witness})
		case l.Stats != nil:
			for k, v := range l.Stats {
				run.Add("net_"+k, v)
			}
		case l.Sample != nil:
			run.Sample(map[string]any{"free_running_row": l.Sample})
		case l.Note != "":
			run.Outcome("net: " + l.Note)
		}
	}
	return true
}
