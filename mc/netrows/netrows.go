// Package netrows is the glue for the free-running rows (QUIC/SSH/UDP stacks that the
// controlled scheduler cannot own): a plain (uninstrumented) helper binary enumerates its
// cases and prints JSON lines; the property's main check merges them into its evidence.
package netrows

import (
	"bufio"
	"encoding/json"
	"fmt"
	"os"
	"os/exec"
	"strings"
	"sync"
	"time"

	"verifmc/evid"
)

type Line struct {
	Kind    string         `json:"kind,omitempty"`
	Site    string         `json:"site,omitempty"`
	Detail  string         `json:"detail,omitempty"`
	Witness any            `json:"witness,omitempty"`
	Stats   map[string]int `json:"stats,omitempty"`
	Sample  any            `json:"sample,omitempty"`
	Note    string         `json:"note,omitempty"`
}

// Emit is used by the helper binaries.
type Emitter struct {
	w   *bufio.Writer
	mu  sync.Mutex
	gen int
}

func NewEmitter() *Emitter { return &Emitter{w: bufio.NewWriter(os.Stdout)} }

// Watch arms (or re-arms) a watchdog for the rows of one stack: if they have not called
// Watch again or finished within limit, a call that must return is blocked for good (for
// instance a Close that never comes back). That is reported as a finding of that stack and
// the helper exits, so that a check can never hang on a broken tree.
func (e *Emitter) Watch(site, what string, limit time.Duration) {
	e.mu.Lock()
	e.gen++
	gen := e.gen
	e.mu.Unlock()
	if limit <= 0 {
		return
	}
	go func() {
		time.Sleep(limit)
		e.mu.Lock()
		expired := gen == e.gen
		e.mu.Unlock()
		if expired {
			e.put(Line{Kind: "free-running-rows-hung", Site: site, Detail: fmt.Sprintf("%s: %s did not finish within %v: a call that has to return (Close, or a call whose context ended) is blocked for good", site, what, limit), Witness: map[string]any{"stack": site, "rows": what}})
			os.Exit(0)
		}
	}()
}

func (e *Emitter) put(l Line) {
	e.mu.Lock()
	defer e.mu.Unlock()
	data, _ := json.Marshal(l)
	e.w.Write(data)
	e.w.WriteByte('\n')
	e.w.Flush()
}

func (e *Emitter) Violation(kind, site, detail string, witness any) {
	e.put(Line{Kind: kind, Site: site, Detail: detail, Witness: witness})
}
func (e *Emitter) Stats(m map[string]int) { e.put(Line{Stats: m}) }
func (e *Emitter) Sample(v any)           { e.put(Line{Sample: v}) }
func (e *Emitter) Note(s string)          { e.put(Line{Note: s}) }

// Run executes the helper named by $VERIF_NET_BIN (built by bin/check next to the main
// harness) and merges its findings. Returns false if there is no helper.
//
// The rows run free (real sockets, the runtime's own schedule), so a finding is only
// believed if it reproduces: when a run reports violations the helper is run once more
// and only the findings (kind, site, case) reported by both runs are kept. Genuine
// defects of these rows are deterministic in their inputs and reproduce every time.
func Run(run *evid.Run, args ...string) bool {
	bin := os.Getenv("VERIF_NET_BIN")
	if bin == "" || os.Getenv("VERIF_SHARD") != "" || run.ReplayFile() != "" {
		return false
	}
	once := func() []Line {
		cmd := exec.Command(bin, append([]string{"-tier", run.Tier}, args...)...)
		var stderr strings.Builder
		cmd.Stderr = &stderr
		out, err := cmd.Output()
		var lines []Line
		if err != nil {
			// the helper died (runtime fatal error such as "concurrent map writes", a panic in a
			// library goroutine): that is the library terminating the process, a finding of
			// these rows, not an internal error of the check
			tail := strings.Split(strings.TrimSpace(stderr.String()), "\n")
			first := ""
			for _, ln := range tail {
				if strings.HasPrefix(ln, "fatal error:") || strings.HasPrefix(ln, "panic:") {
					first = ln
					break
				}
			}
			if first == "" && len(tail) > 0 {
				first = tail[0]
			}
			lines = append(lines, Line{Kind: "process-terminated", Site: "free-running rows", Detail: fmt.Sprintf("the helper running the free-running rows died (%v): %s", err, first), Witness: map[string]any{"rows": "helper process"}})
		} else {
			os.Stderr.WriteString(stderr.String())
		}
		for _, ln := range strings.Split(string(out), "\n") {
			if strings.TrimSpace(ln) == "" || !strings.HasPrefix(ln, "{") {
				continue
			}
			var l Line
			if json.Unmarshal([]byte(ln), &l) == nil {
				lines = append(lines, l)
			}
		}
		return lines
	}
	// a finding is identified by its kind, site and the case it belongs to (the witness names
	// the case; details may carry counts that vary between runs)
	key := func(l Line) string {
		if l.Witness != nil {
			w, _ := json.Marshal(l.Witness)
			return l.Kind + "|" + l.Site + "|" + string(w)
		}
		return l.Kind + "|" + l.Site + "|" + l.Detail
	}
	lines := once()
	hasViolation := false
	for _, l := range lines {
		if l.Kind != "" {
			hasViolation = true
		}
	}
	if hasViolation {
		confirmed := map[string]int{}
		for i := 0; i < 1; i++ {
			seen := map[string]bool{}
			for _, l := range once() {
				if l.Kind != "" && !seen[key(l)] {
					seen[key(l)] = true
					confirmed[key(l)]++
				}
			}
		}
		var kept []Line
		dropped := 0
		for _, l := range lines {
			if l.Kind != "" && confirmed[key(l)] < 1 {
				dropped++
				continue
			}
			kept = append(kept, l)
		}
		lines = kept
		run.Add("net_unconfirmed_findings_dropped", dropped)
	}
	for _, l := range lines {
		switch {
		case l.Kind != "":
			run.Violate(evid.Violation{Kind: l.Kind, Site: l.Site, Detail: l.Detail, Witness: l.Witness})
		case l.Stats != nil:
			for k, v := range l.Stats {
				run.Add("net_"+k, v)
			}
		case l.Sample != nil:
			run.Sample(map[string]any{"free_running_row": l.Sample})
		case l.Note != "":
			run.Outcome("net: " + l.Note)
		}
	}
	return true
}
