// Package evid is the common reporting layer of every check: tier/seed parsing,
// violation classification against /verif/known_findings.json, replay files and the
// evidence file.
package evid

import (
	"crypto/sha256"
	"encoding/hex"
	"encoding/json"
	"flag"
	"fmt"
	"os"
	"path/filepath"
	"regexp"
	"sort"
	"strconv"
	"sync"
	"time"
)

const Root = "/verif"

// outRoot is where evidence and replay files go: /verif, or a scratch directory when a
// check is run against a development copy of the repository (bin/check with VERIF_REPO).
func outRoot() string {
	if d := os.Getenv("VERIF_DEV_OUT"); d != "" {
		return d
	}
	return Root
}

// Violation is one failed oracle clause on one explored case.
type Violation struct {
	Property string `json:"property"`
	Kind     string `json:"kind"`   // stable name of the oracle clause
	Site     string `json:"site"`   // component / stack / call site
	Detail   string `json:"detail"` // human readable, deterministic
	Witness  any    `json:"witness"`
}

type knownFinding struct {
	Property string `json:"property"`
	Kind     string `json:"kind"`
	Site     string `json:"site"`
	Match    string `json:"match,omitempty"` // optional regexp over Detail
	What     string `json:"what"`
	re       *regexp.Regexp
}

type knownFile struct {
	Findings []knownFinding    `json:"findings"`
	Fixed    []json.RawMessage `json:"fixed"`
}

type Run struct {
	Prop  string
	Tier  string
	Seed  int64
	Level string

	mu          sync.Mutex
	start       time.Time
	Cov         map[string]any
	Assumptions []string
	samples     []any
	outcomes    map[string]int

	known      []knownFinding
	knownHit   map[int]int
	unlisted   []Violation
	unlistedN  map[string]int
	replayArg  string
	violations int
}

var (
	flagTier   = flag.String("tier", "", "quick|thorough (default: $VERIF_TIER or quick)")
	flagReplay = flag.String("replay", "", "replay file")
)

// Start parses flags and loads the known-findings file.
func Start(prop, level string) *Run {
	if !flag.Parsed() {
		flag.Parse()
	}
	tier := *flagTier
	if tier == "" {
		tier = os.Getenv("VERIF_TIER")
	}
	if tier != "thorough" {
		tier = "quick"
	}
	seed, _ := strconv.ParseInt(os.Getenv("VERIF_SEED"), 10, 64)
	r := &Run{Prop: prop, Tier: tier, Seed: seed, Level: level, start: time.Now(),
		Cov: map[string]any{}, knownHit: map[int]int{}, unlistedN: map[string]int{},
		outcomes: map[string]int{}, replayArg: *flagReplay}
	data, err := os.ReadFile(filepath.Join(Root, "known_findings.json"))
	if err == nil {
		var kf knownFile
		if err := json.Unmarshal(data, &kf); err != nil {
			fmt.Fprintln(os.Stderr, "known_findings.json unreadable:", err)
			os.Exit(2)
		}
		for _, k := range kf.Findings {
			if k.Property != prop {
				continue
			}
			if k.Match != "" {
				k.re = regexp.MustCompile(k.Match)
			}
			r.known = append(r.known, k)
		}
	}
	return r
}

func (r *Run) Thorough() bool     { return r.Tier == "thorough" }
func (r *Run) ReplayFile() string { return r.replayArg }

// Pick returns q in the quick tier and t in the thorough tier.
func Pick[T any](r *Run, q, t T) T {
	if r.Thorough() {
		return t
	}
	return q
}

// Add adds n to an integer coverage counter.
func (r *Run) Add(key string, n int) {
	r.mu.Lock()
	defer r.mu.Unlock()
	cur, _ := r.Cov[key].(int)
	r.Cov[key] = cur + n
}

func (r *Run) Set(key string, v any) {
	r.mu.Lock()
	defer r.mu.Unlock()
	r.Cov[key] = v
}

func (r *Run) Get(key string) int {
	r.mu.Lock()
	defer r.mu.Unlock()
	cur, _ := r.Cov[key].(int)
	return cur
}

// Sample records an explored case verbatim (at most 12 are kept).
func (r *Run) Sample(v any) {
	r.mu.Lock()
	defer r.mu.Unlock()
	if len(r.samples) < 12 {
		r.samples = append(r.samples, v)
	}
}

// Outcome counts a distinct observable outcome (vacuity guard).
func (r *Run) Outcome(s string) {
	r.mu.Lock()
	defer r.mu.Unlock()
	r.outcomes[s]++
}

func (r *Run) Assume(s string) {
	r.mu.Lock()
	defer r.mu.Unlock()
	for _, a := range r.Assumptions {
		if a == s {
			return
		}
	}
	r.Assumptions = append(r.Assumptions, s)
}

// Violate classifies v: listed in known_findings.json -> KNOWN-FINDING, else VIOLATION.
func (r *Run) Violate(v Violation) {
	r.mu.Lock()
	defer r.mu.Unlock()
	v.Property = r.Prop
	r.violations++
	for i, k := range r.known {
		if k.Kind == v.Kind && k.Site == v.Site && (k.re == nil || k.re.MatchString(v.Detail)) {
			r.knownHit[i]++
			return
		}
	}
	key := v.Kind + "|" + v.Site
	r.unlistedN[key]++
	if r.unlistedN[key] <= 1 && len(r.unlisted) < 40 {
		r.unlisted = append(r.unlisted, v)
	}
}

// Failed reports whether an unlisted violation was recorded so far.
func (r *Run) Failed() bool {
	r.mu.Lock()
	defer r.mu.Unlock()
	return len(r.unlisted) > 0
}

// Finish writes the evidence file, prints the verdict lines and exits.
func (r *Run) Finish() {
	r.mu.Lock()
	defer r.mu.Unlock()
	wall := time.Since(r.start).Seconds()
	if len(r.samples) > 0 {
		r.Cov["samples"] = r.samples
	}
	if len(r.outcomes) > 0 {
		keys := make([]string, 0, len(r.outcomes))
		for k := range r.outcomes {
			keys = append(keys, k)
		}
		sort.Strings(keys)
		r.Cov["distinct_outcomes"] = len(keys)
		if len(keys) > 40 {
			keys = keys[:40]
		}
		oc := map[string]int{}
		for _, k := range keys {
			oc[k] = r.outcomes[k]
		}
		r.Cov["outcomes"] = oc
	}
	var knownLines []string
	for i, k := range r.known {
		if r.knownHit[i] > 0 {
			knownLines = append(knownLines, fmt.Sprintf("KNOWN-FINDING: property=%s %s [kind=%s site=%s hits=%d]", r.Prop, k.What, k.Kind, k.Site, r.knownHit[i]))
		}
	}
	r.Cov["known_finding_hits"] = len(knownLines)
	ev := map[string]any{
		"property_id": r.Prop,
		"tier":        r.Tier,
		"seed":        r.Seed,
		"level":       r.Level,
		"coverage":    r.Cov,
		"assumptions": r.Assumptions,
		"wall_s":      wall,
		"violations":  len(r.unlisted),
	}
	if r.Assumptions == nil {
		ev["assumptions"] = []string{}
	}
	if r.replayArg == "" {
		data, _ := json.MarshalIndent(ev, "", " ")
		os.MkdirAll(filepath.Join(outRoot(), "evidence"), 0o755)
		if err := os.WriteFile(filepath.Join(outRoot(), "evidence", r.Prop+".json"), append(data, '\n'), 0o644); err != nil {
			fmt.Fprintln(os.Stderr, "cannot write evidence:", err)
			os.Exit(2)
		}
	}
	for _, l := range knownLines {
		fmt.Println(l)
	}
	summary := map[string]any{}
	for k, v := range r.Cov {
		switch v.(type) {
		case int, bool, string, float64:
			summary[k] = v
		}
	}
	sdata, _ := json.Marshal(summary)
	fmt.Printf("%s tier=%s wall=%.1fs %s\n", r.Prop, r.Tier, wall, sdata)
	if len(r.unlisted) == 0 {
		fmt.Printf("OK property=%s\n", r.Prop)
		os.Exit(0)
	}
	os.MkdirAll(filepath.Join(outRoot(), "replays"), 0o755)
	for _, v := range r.unlisted {
		data, _ := json.MarshalIndent(v, "", " ")
		h := sha256.Sum256(data)
		path := filepath.Join(outRoot(), "replays", fmt.Sprintf("%s-%s-%s.json", r.Prop, sanitize(v.Kind), hex.EncodeToString(h[:4])))
		os.WriteFile(path, append(data, '\n'), 0o644)
		fmt.Printf("  kind=%s site=%s detail=%s (total of this kind/site: %d)\n", v.Kind, v.Site, v.Detail, r.unlistedN[v.Kind+"|"+v.Site])
		fmt.Printf("VIOLATION property=%s replay=%s\n", r.Prop, path)
	}
	os.Exit(1)
}

func sanitize(s string) string {
	out := []rune{}
	for _, c := range s {
		if (c >= 'a' && c <= 'z') || (c >= 'A' && c <= 'Z') || (c >= '0' && c <= '9') || c == '-' {
			out = append(out, c)
		} else {
			out = append(out, '_')
		}
	}
	return string(out)
}

// Hex is a helper for witnesses.
func Hex(b []byte) string { return hex.EncodeToString(b) }
