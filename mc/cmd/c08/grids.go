package main

import (
	"bytes"
	"context"
	"encoding/binary"
	"fmt"
	"time"

	"go.brendoncarroll.net/p2p"
	"go.brendoncarroll.net/p2p/f/x509"
	"go.brendoncarroll.net/p2p/p/kademlia"
	"go.brendoncarroll.net/p2p/p/p2pke"
	"go.brendoncarroll.net/p2p/p/p2pmux"
	"go.brendoncarroll.net/p2p/s/memswarm"
	"go.brendoncarroll.net/p2p/s/multiswarm"
	"go.brendoncarroll.net/p2p/s/p2pkeswarm"
	"go.brendoncarroll.net/p2p/s/quicswarm"
	"go.brendoncarroll.net/p2p/s/sshswarm"
	"go.brendoncarroll.net/p2p/s/udpswarm"

	"verifmc/evid"
	"verifmc/pk"
)

func try(run *evid.Run, site string, input any, f func()) {
	defer func() {
		if r := recover(); r != nil {
			run.Violate(evid.Violation{Kind: "panic", Site: site, Detail: fmt.Sprintf("panic: %v", r), Witness: input})
		}
	}()
	run.Add("evaluations", 1)
	f()
}

func strings12(depth int) []string {
	alpha := []string{"@", ":", "/", "[", "]", "%", ".", "-", "0", "9", "a", "\xff"}
	out := []string{""}
	var rec func(p string, n int)
	rec = func(p string, n int) {
		if n == 0 {
			return
		}
		for _, a := range alpha {
			out = append(out, p+a)
			rec(p+a, n-1)
		}
	}
	rec("", depth)
	return out
}

func byteStrings(alpha []byte, depth int) [][]byte {
	out := [][]byte{{}}
	var rec func(p []byte, n int)
	rec = func(p []byte, n int) {
		if n == 0 {
			return
		}
		for _, a := range alpha {
			q := append(append([]byte{}, p...), a)
			out = append(out, q)
			rec(q, n-1)
		}
	}
	rec(nil, depth)
	return out
}

// directGrids feeds boundary-complete inputs to every parser / handler that is reachable
// with bytes from a remote party and does not need a running swarm.
func directGrids(run *evid.Run) {
	// multiplexer demux functions
	raws := byteStrings([]byte{0x00, 0x01, 0x7f, 0x80, 0xff}, 3)
	for n := 1; n <= 10; n++ {
		for _, last := range []byte{0x00, 0x01, 0x7f, 0x80, 0xff} {
			p := append(bytes.Repeat([]byte{0xff}, n-1), last)
			raws = append(raws, p, append(append([]byte{}, p...), 'x'), append(append([]byte{}, p...), 'x', 'y', 'z'))
		}
	}
	for _, raw := range raws {
		raw := raw[:len(raw):len(raw)] // exact capacity: an over-read is a bounds panic, not a stale byte
		try(run, "stringmux", evid.Hex(raw), func() { p2pmux.VerifStringDemux(raw) })
		try(run, "varintmux", evid.Hex(raw), func() { p2pmux.VerifVarintDemux(raw) })
		try(run, "uint16mux", evid.Hex(raw), func() { p2pmux.VerifUint16Demux(raw) })
		try(run, "uint32mux", evid.Hex(raw), func() { p2pmux.VerifUint32Demux(raw) })
		try(run, "uint64mux", evid.Hex(raw), func() { p2pmux.VerifUint64Demux(raw) })
	}
	// address and id parsers
	depth := evid.Pick(run, 4, 5)
	keMem := func(b []byte) { p2pkeswarm.ParseAddr[memswarm.Addr](memswarm.ParseAddr, b) }
	quicUDP := func(b []byte) { quicswarm.ParseAddr[udpswarm.Addr](udpswarm.ParseAddr, b) }
	schema := multiswarm.NewSchemaFromSwarms(map[string]multiswarm.DynSwarm{})
	valid := []string{"127.0.0.1:80", "[::1]:80", "SHA256:abc+/x@1.2.3.4:22", "a://1", "udp://127.0.0.1:1", "-------------------------------------------@7"}
	var texts []string
	texts = append(texts, strings12(depth)...)
	for _, v := range valid {
		for i := 0; i <= len(v); i++ {
			texts = append(texts, v[:i], v[i:])
			if i < len(v) {
				texts = append(texts, v[:i]+"\x00"+v[i+1:], v[:i]+"@"+v[i:], v[:i]+":"+v[i:])
			}
		}
	}
	for _, t := range texts {
		b := []byte(t)
		try(run, "udpswarm.ParseAddr", t, func() { udpswarm.ParseAddr(b) })
		try(run, "sshswarm.ParseAddr", t, func() { sshswarm.ParseAddr(b) })
		try(run, "memswarm.ParseAddr", t, func() { memswarm.ParseAddr(b) })
		try(run, "p2pkeswarm.ParseAddr", t, func() { keMem(b) })
		try(run, "quicswarm.ParseAddr", t, func() { quicUDP(b) })
		try(run, "multiswarm.ParseAddr", t, func() { schema.ParseAddr(b) })
		try(run, "PeerID.UnmarshalText", t, func() { var id p2p.PeerID; id.UnmarshalText(b) })
	}
	// public key parser: every single-byte mutation and truncation of a valid DER key + short strings
	pub := pk.Pub(0)
	der := x509.MarshalPublicKey(nil, &pub)
	var ders [][]byte
	for i := range der {
		for _, v := range []byte{0x00, 0x01, 0x7f, 0x80, 0xff, der[i] + 1} {
			d := append([]byte{}, der...)
			d[i] = v
			ders = append(ders, d)
		}
		ders = append(ders, der[:i], der[i:])
	}
	ders = append(ders, byteStrings([]byte{0x00, 0x03, 0x30, 0x80, 0xff}, 3)...)
	for _, d := range ders {
		d := d
		try(run, "x509.ParsePublicKey", evid.Hex(d), func() {
			if k, err := x509.ParsePublicKey(d); err == nil {
				x509.DefaultRegistry().LoadVerifier(&k)
				p2pkeswarm.DefaultFingerprinter(&k)
			}
		})
	}
	// QUIC frame reader
	for _, l := range []uint32{0, 1, 2, 7, 8, 9, 1<<16 - 1, 1 << 16, 1<<16 + 1, 1<<31 - 1, 1 << 31, 1<<32 - 1} {
		for _, avail := range []int{0, 1, 3, 4, 8, 12} {
			for _, dstLen := range []int{0, 8, 1 << 16} {
				hdr := make([]byte, 4)
				binary.BigEndian.PutUint32(hdr, l)
				src := append(hdr, bytes.Repeat([]byte{0xAB}, 8)...)
				if avail < len(src) {
					src = src[:avail]
				}
				l, dstLen, src := l, dstLen, src
				try(run, "quicswarm.readFrame", fmt.Sprintf("len=%d avail=%d dst=%d", l, len(src), dstLen), func() {
					quicswarm.VerifReadFrame(bytes.NewReader(src), make([]byte, dstLen), 1<<16)
				})
			}
		}
	}
	// DHT handlers with boundary requests
	for _, cacheSize := range []int{0, 1, 8, 16, 300} {
		func() {
			var node *kademlia.DHTNode
			try(run, "kademlia.NewDHTNode", cacheSize, func() {
				node = kademlia.NewDHTNode(kademlia.DHTNodeParams{LocalID: p2p.PeerID{1}, PeerCacheSize: cacheSize, DataCacheSize: cacheSize})
			})
			if node == nil {
				return
			}
			for i := 0; i < 20; i++ {
				id := p2p.PeerID{byte(i * 13), byte(i)}
				try(run, "DHTNode.AddPeer", fmt.Sprint(cacheSize, i), func() { node.AddPeer(id, []byte("info")) })
			}
			for _, key := range [][]byte{nil, {}, {0x00}, {0xff}, bytes.Repeat([]byte{0x55}, 31), bytes.Repeat([]byte{0x55}, 32), bytes.Repeat([]byte{0x55}, 33), bytes.Repeat([]byte{0}, 64)} {
				key := key
				for _, ttl := range []uint64{0, 1, 1 << 62, 1<<64 - 1} {
					ttl := ttl
					try(run, "DHTNode.HandlePut", fmt.Sprintf("cache=%d key=%x ttl=%d", cacheSize, key, ttl), func() {
						node.HandlePut(p2p.PeerID{9}, kademlia.PutReq{Key: key, Value: []byte("v"), TTLms: ttl})
					})
				}
				try(run, "DHTNode.HandleGet", fmt.Sprintf("cache=%d key=%x", cacheSize, key), func() { node.HandleGet(p2p.PeerID{9}, kademlia.GetReq{Key: key}) })
			}
			for _, limit := range []int{-1, 0, 1, 10, 11, 1 << 30} {
				limit := limit
				try(run, "DHTNode.HandleFindNode", fmt.Sprintf("cache=%d limit=%d", cacheSize, limit), func() {
					node.HandleFindNode(p2p.PeerID{9}, kademlia.FindNodeReq{Target: p2p.PeerID{0x80}, Limit: limit})
				})
			}
		}()
	}
	p2pkeGrids(run)
}

// p2pkeGrids: genuine handshake/data messages with every single byte position zeroed,
// incremented or truncated-at, delivered to Sessions and Channels in every order of <= 2.
func p2pkeGrids(run *evid.Run) {
	t0 := time.Unix(1_700_000_000, 0)
	mkPair := func() (*p2pke.Session, *p2pke.Session) {
		mk := func(i int, init bool) *p2pke.Session {
			return p2pke.NewSession(p2pke.SessionConfig{Registry: x509.DefaultRegistry(), PrivateKey: pk.Key(i), IsInit: init, Now: t0, RejectAfter: time.Hour, Logger: pk.Nop})
		}
		return mk(0, true), mk(1, false)
	}
	// collect the genuine messages of one complete run
	i0, r0 := mkPair()
	var genuine [][]byte
	ih := i0.Handshake(nil)
	_, rh, _ := r0.Deliver(nil, ih, t0)
	_, id, _ := i0.Deliver(nil, rh, t0)
	_, rd, _ := r0.Deliver(nil, id, t0)
	i0.Deliver(nil, rd, t0)
	d1, _ := i0.Send(nil, []byte("data"), t0)
	d2, _ := r0.Send(nil, []byte("data"), t0)
	genuine = append(genuine, ih, rh, id, rd, d1, d2)
	var variants [][]byte
	for _, g := range genuine {
		variants = append(variants, g)
		stride := 1
		if len(g) > 120 && !run.Thorough() {
			stride = 3
		}
		for pos := 0; pos < len(g); pos += stride {
			z := append([]byte{}, g...)
			z[pos] = 0
			inc := append([]byte{}, g...)
			inc[pos]++
			variants = append(variants, z, inc, g[:pos])
		}
	}
	variants = append(variants, byteStrings([]byte{0x00, 0x01, 0x02, 0x03, 0x10, 0xff}, 4)...)
	run.Set("p2pke_variants", len(variants))
	// stage: how far the genuine handshake has progressed before the garbage arrives
	for stage := 0; stage <= 4; stage++ {
		for vi, v := range variants {
			v, vi := v, vi
			for side := 0; side < 2; side++ {
				side := side
				try(run, "p2pke.Session.Deliver", fmt.Sprintf("stage=%d side=%d variant=%d %x", stage, side, vi, v), func() {
					a, b := mkPair()
					msgs := [][]byte{}
					m := a.Handshake(nil)
					for k := 0; k < stage; k++ {
						msgs = append(msgs, m)
						var tgt *p2pke.Session
						if k%2 == 0 {
							tgt = b
						} else {
							tgt = a
						}
						_, out, _ := tgt.Deliver(nil, m, t0)
						m = out
						if m == nil {
							break
						}
					}
					s := []*p2pke.Session{a, b}[side]
					s.Deliver(nil, v, t0)
					s.Deliver(nil, v, t0)
					s.Handshake(nil)
					s.Send(nil, []byte("x"), t0)
				})
			}
		}
	}
	// Channels: garbage first, garbage after establishment, pairs of variants
	mkChan := func(i int, out *[][]byte) *p2pke.Channel {
		return p2pke.NewChannel(p2pke.ChannelConfig{PrivateKey: pk.Key(i), Send: func(b []byte) { *out = append(*out, append([]byte{}, b...)) }, AcceptKey: func(*x509.PublicKey) bool { return true }, Logger: pk.Nop})
	}
	step := 1
	if !run.Thorough() {
		step = 7
	}
	for vi := 0; vi < len(variants); vi += step {
		for vj := 0; vj < len(variants); vj += step * 11 {
			v1, v2 := variants[vi], variants[vj]
			try(run, "p2pke.Channel.Deliver", fmt.Sprintf("variants %d,%d", vi, vj), func() {
				var out [][]byte
				c := mkChan(1, &out)
				defer c.Close()
				c.Deliver(nil, v1)
				c.Deliver(nil, v2)
				c.Deliver(nil, v1)
				// keeps serving: a genuine InitHello from a fresh initiator is still answered
				fresh, _ := mkPair()
				c.Deliver(nil, fresh.Handshake(nil))
				answered := false
				for _, o := range out {
					if p2pke.IsRespHello(o) {
						answered = true
					}
				}
				if !answered {
					run.Violate(evid.Violation{Kind: "stops-serving", Site: "p2pke.Channel.Deliver", Detail: "after two malformed packets a genuine InitHello is no longer answered", Witness: []string{evid.Hex(v1), evid.Hex(v2)}})
				}
			})
		}
	}
	_ = context.Background
}
