// C08: no bytes from the network can crash a node.
// Part 1 (grids.go): boundary-complete inputs to every parser/handler, called directly.
// Part 2: exhaustive sequences of <= 2 (quick) / 3 (thorough) crafted packets sharing an
// id, injected through the real entry path (a raw peer on the in-memory transport) into
// fragswarm, mbapp (fast path on and off), the multiplexers and p2pkeswarm, executed on
// the instrumented code with a deterministic schedule; afterwards a valid message must
// still be delivered.
package main

import (
	"bytes"
	"context"
	"encoding/binary"
	"fmt"
	"io"
	"log"
	"os"
	"runtime/metrics"
	"time"

	"go.brendoncarroll.net/p2p"
	"go.brendoncarroll.net/p2p/p/mbapp"

	"verifmc/evid"
	"verifmc/explore"
	"verifmc/hx"
	"verifmc/stacks"
	"verifmc/vrt"
)

type ledger struct {
	allocStart uint64
	cell       hx.Cell
	got        [][]byte
	script     []string
	validSent  bool
}

func led(x *vrt.Exec) *ledger { return x.Data.(*ledger) }

func uv(x uint64) []byte {
	b := make([]byte, binary.MaxVarintLen64)
	return b[:binary.PutUvarint(b, x)]
}

type pkt struct {
	name string
	data []byte
	ask  bool
}

func fragAlphabet() []pkt {
	var out []pkt
	bodies := [][]byte{{}, []byte("x"), bytes.Repeat([]byte("b"), 24)}
	for _, part := range []uint64{0, 1, 2, 5, 254, 255, 256, 1 << 32} {
		for _, total := range []uint64{0, 1, 2, 3, 255, 256, 257} {
			for bi, body := range bodies {
				if bi == 2 && (part > 5 || total > 3) {
					continue
				}
				d := append(append(append(uv(7), uv(part)...), uv(total)...), body...)
				out = append(out, pkt{name: fmt.Sprintf("frag(id=7,part=%d,total=%d,body=%d)", part, total, len(body)), data: d})
			}
		}
	}
	out = append(out, pkt{name: "empty", data: nil}, pkt{name: "short-varint", data: []byte{0x80}}, pkt{name: "two-fields", data: []byte{0x07, 0x00}},
		pkt{name: "huge-id", data: append(append(uv(1<<63), 0x00), 0x02)})
	return out
}

func mbappAlphabet() []pkt {
	var out []pkt
	mk := func(ask, reply bool, partIndex, partCount uint16, total uint32, body []byte, code uint8) pkt {
		h := mbapp.Header(make([]byte, mbapp.HeaderSize))
		h.SetIsAsk(ask)
		h.SetIsReply(reply)
		h.SetErrorCode(code)
		h.SetCounter(42)
		h.SetOriginTime(mbapp.NewPhaseTime32(vrt.Epoch, time.Millisecond))
		h.SetPartIndex(partIndex)
		h.SetPartCount(partCount)
		h.SetTotalSize(total)
		h.SetTimeout(5000)
		return pkt{name: fmt.Sprintf("mbapp(ask=%v,reply=%v,idx=%d,count=%d,total=%d,body=%d)", ask, reply, partIndex, partCount, total, len(body)), data: append([]byte(h), body...)}
	}
	bodies := [][]byte{{}, []byte("y"), bytes.Repeat([]byte("c"), 20), bytes.Repeat([]byte("d"), 40)}
	for _, idx := range []uint16{0, 1, 2, 3, 65535} {
		for _, count := range []uint16{0, 1, 2, 3, 65535} {
			for _, total := range []uint32{0, 1, 10, 40, 200, 201, 1<<32 - 1} {
				for bi, body := range bodies {
					if (bi >= 2 && (idx > 3 || count > 3)) || (total > 201 && bi > 0) {
						continue
					}
					out = append(out, mk(false, false, idx, count, total, body, 0))
				}
			}
		}
	}
	out = append(out, mk(true, false, 0, 1, 3, []byte("ask"), 0), mk(true, true, 0, 1, 3, []byte("rep"), 0), mk(true, true, 0, 1, 0, nil, 0xff), mk(true, false, 1, 2, 8, []byte("half"), 0))
	out = append(out, pkt{name: "empty", data: nil}, pkt{name: "23-bytes", data: make([]byte, 23)}, pkt{name: "header-only-zero", data: make([]byte, 24)})
	return out
}

func muxAlphabet(kind string) []pkt {
	var out []pkt
	var raws [][]byte
	raws = append(raws, nil, []byte{0x00}, []byte{0x01}, []byte{0x80}, []byte{0xff}, []byte{0x05, 'a'}, []byte{0x06, 'c', 'h', 'a', 'n', '-', 'a', 'x'},
		bytes.Repeat([]byte{0xff}, 9), append(bytes.Repeat([]byte{0xff}, 9), 0x01), append(bytes.Repeat([]byte{0xff}, 9), 0x7f, 'z'), []byte{0, 0, 0, 0, 0, 0, 0}, []byte{0, 0, 0, 0, 0, 0, 0, 0, 'q'}, []byte{0x01, 0x02, 'm'}, []byte{0xac, 0x02, 'v'})
	for _, r := range raws {
		out = append(out, pkt{name: fmt.Sprintf("tell(%x)", r), data: r}, pkt{name: fmt.Sprintf("ask(%x)", r), data: r, ask: true})
	}
	return out
}

func p2pkeAlphabet() []pkt {
	var out []pkt
	for _, n := range []uint32{0, 1, 2, 3, 4, 15, 16, 17, 1<<32 - 2, 1<<32 - 1} {
		for _, body := range [][]byte{{}, {0x00}, {0x00, 0x00}, bytes.Repeat([]byte{0x00}, 31), bytes.Repeat([]byte{0xff}, 32), bytes.Repeat([]byte{0x41}, 50), append(bytes.Repeat([]byte{0x41}, 48), 0xff, 0xff), append(bytes.Repeat([]byte{0x41}, 48), 0x00, 0x05)} {
			h := make([]byte, 4)
			binary.BigEndian.PutUint32(h, n)
			out = append(out, pkt{name: fmt.Sprintf("p2pke(counter=%d,body=%d:%x)", n, len(body), tail(body)), data: append(h, body...)})
		}
	}
	out = append(out, pkt{name: "empty", data: nil}, pkt{name: "3-bytes", data: []byte{0, 0, 0}})
	return out
}

func tail(b []byte) []byte {
	if len(b) > 2 {
		return b[len(b)-2:]
	}
	return b
}

type target struct {
	name     string
	stack    stacks.Config
	alphabet []pkt
	noFast   bool
	depth    int
}

func scenario(t target) *explore.Scenario {
	sc := &explore.Scenario{Name: t.name, PB: 0, DB: 0}
	sc.Setup = func(x *vrt.Exec) {
		x.Data = &ledger{}
		x.MaxSteps = 20000
		x.SchedDeterministic = true
		x.TimerHorizon = 2 * time.Second
	}
	sc.Body = func(x *vrt.Exec) {
		l := led(x)
		l.allocStart = allocBytes()
		mbapp.VerifSetDisableFastPath(t.noFast)
		cfg := t.stack
		cfg.N = 2
		st := stacks.Build(cfg)
		node, peer := st.Nodes[0], st.Nodes[1]
		bg := context.Background()
		rctx, stop := hx.WithCancel(bg)
		vrt.Go("R", func() {
			for {
				if err := node.Receive(rctx, func(m stacks.Msg) {
					l.got = append(l.got, append([]byte{}, m.Payload...))
				}); err != nil {
					return
				}
			}
		})
		if st.HasAsk {
			vrt.Go("S", func() {
				for {
					if err := node.ServeAsk(rctx, func(ctx context.Context, resp []byte, m stacks.Msg) int { return 0 }); err != nil {
						return
					}
				}
			})
		}
		// every other open channel of a multiplexer is served too (an unserved open channel
		// blocks the multiplexer's dispatch loop, which is not what this property is about)
		if others, ok := st.Extra["other"].([]*stacks.Node); ok {
			o := others[0]
			vrt.Go("R-other", func() {
				for {
					if err := o.Receive(rctx, func(m stacks.Msg) {}); err != nil {
						return
					}
				}
			})
			vrt.Go("S-other", func() {
				for {
					if err := o.ServeAsk(rctx, func(ctx context.Context, resp []byte, m stacks.Msg) int { return 0 }); err != nil {
						return
					}
				}
			})
		}
		x.Settle()
		// the adversary: a raw peer on the inner transport
		for i := 0; i < t.depth; i++ {
			k := x.Choose(len(t.alphabet)+1, nil, "packet")
			if k == 0 {
				break // shorter sequences
			}
			p := t.alphabet[k-1]
			l.script = append(l.script, p.name)
			if p.ask && st.Raw.Ask != nil {
				actx, cf := hx.WithCancel(bg)
				done := false
				vrt.Go("raw-ask", func() {
					resp := make([]byte, 16)
					st.Raw.Ask(actx, resp, 0, p2p.IOVec{p.data})
					done = true
				})
				x.Settle()
				cf()
				x.Settle()
				_ = done
			} else {
				st.Raw.Tell(bg, 0, p2p.IOVec{p.data})
				x.Settle()
			}
		}
		// the node must keep serving
		l.validSent = true
		peer.Tell(bg, 0, p2p.IOVec{[]byte("still-alive")})
		x.Settle()
		stop()
		for _, n := range st.Nodes {
			n.Close()
		}
		st.Raw.Close()
		for _, cl := range st.Underlying {
			cl()
		}
	}
	sc.Check = func(x *vrt.Exec) []explore.Finding {
		l := led(x)
		var fs []explore.Finding
		if x.HorizonHit {
			fs = append(fs, explore.Finding{Kind: "step-horizon", Site: t.name, Detail: fmt.Sprintf("did not quiesce after %v", l.script)})
			return fs
		}
		if grown := allocBytes() - l.allocStart; grown > 64<<20 {
			fs = append(fs, explore.Finding{Kind: "unbounded-allocation", Site: t.name, Detail: fmt.Sprintf("%d MiB were allocated while handling %v (a handful of small packets)", grown>>20, l.script)})
		}
		alive := false
		for _, g := range l.got {
			if string(g) == "still-alive" {
				alive = true
			}
		}
		if pv, _ := x.Panic(); pv == nil && l.validSent && !alive {
			fs = append(fs, explore.Finding{Kind: "stops-serving", Site: t.name, Detail: fmt.Sprintf("a valid message sent after %v was not delivered", l.script)})
		}
		return fs
	}
	sc.Outcome = func(x *vrt.Exec) string { return fmt.Sprintf("delivered=%d", len(led(x).got)) }
	return sc
}

var allocSample = []metrics.Sample{{Name: "/gc/heap/allocs:bytes"}}

func allocBytes() uint64 {
	metrics.Read(allocSample)
	return allocSample[0].Value.Uint64()
}

func main() {
	run := evid.Start("C08", "fault_enumeration")
	log.SetOutput(io.Discard)
	if os.Getenv("VERIF_SHARD") == "" && run.ReplayFile() == "" {
		directGrids(run)
	}
	depth := evid.Pick(run, 2, 3)
	targets := []target{
		{name: "fragswarm", stack: stacks.Config{Kind: "frag", InnerMTU: 64, MTU: 200}, alphabet: fragAlphabet(), depth: depth},
		{name: "mbapp", stack: stacks.Config{Kind: "mbapp", InnerMTU: 64, MTU: 200}, alphabet: mbappAlphabet(), depth: depth},
		{name: "mbapp-nofastpath", stack: stacks.Config{Kind: "mbapp", InnerMTU: 64, MTU: 200}, alphabet: mbappAlphabet(), noFast: true, depth: depth},
		{name: "mux-string", stack: stacks.Config{Kind: "mux-string", InnerMTU: 64}, alphabet: muxAlphabet("string"), depth: depth},
		{name: "mux-varint", stack: stacks.Config{Kind: "mux-varint", InnerMTU: 64}, alphabet: muxAlphabet("varint"), depth: depth},
		{name: "mux-uint16", stack: stacks.Config{Kind: "mux-uint16", InnerMTU: 64}, alphabet: muxAlphabet("uint16"), depth: depth},
		{name: "mux-uint32", stack: stacks.Config{Kind: "mux-uint32", InnerMTU: 64}, alphabet: muxAlphabet("uint32"), depth: depth},
		{name: "mux-uint64", stack: stacks.Config{Kind: "mux-uint64", InnerMTU: 64}, alphabet: muxAlphabet("uint64"), depth: depth},
		{name: "p2pkeswarm", stack: stacks.Config{Kind: "p2pke"}, alphabet: p2pkeAlphabet(), depth: 2},
	}
	var scs []*explore.Scenario
	for _, t := range targets {
		sc := scenario(t)
		sc.NoCache = true
		sc.Journal = true
		scs = append(scs, sc)
	}
	grid := run.Get("evaluations")
	explore.Main(run, scs, evid.Pick(run, 150*time.Second, 20*time.Minute))
	seqs := run.Get("states")
	run.Set("evaluations", grid+seqs)
	run.Set("distinct_nontrivial", grid+seqs)
	run.Set("rule", "grid part: every input of the boundary-complete grids (distinct by construction) fed to each parser/handler; sequence part: every sequence of <= depth packets over the per-layer header-field alphabets (part/total/index/count/size fields over {0,1,boundary-1,boundary,boundary+1,max}, bodies of declared-1/declared/declared+1 lengths) injected through a raw peer; a case is non-trivial if it reaches the layer's parser (all do)")
	run.Set("packet_sequences", seqs)
	run.Set("direct_grid_cases", grid)
	run.Sample(map[string]any{"target": "fragswarm", "sequence": []string{"frag(id=7,part=0,total=2,body=1)", "frag(id=7,part=5,total=6,body=1)"}})
	run.Assume("panics are observed through recover in the harness thread wrapper (all library goroutines are scheduler threads); fatal runtime errors would kill the worker and be reported as an internal failure")
	run.Finish()
}
