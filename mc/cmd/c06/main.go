// C06: the handshake completes under loss, duplication and reordering.
// Explicit-state BFS (closure) over deliver/drop/duplicate/reorder/reflect/retransmit
// actions on one genuine Session pair, with a fair suffix run from every reachable state.
package main

import (
	"bytes"
	"fmt"
	"sort"
	"strings"
	"time"

	"go.brendoncarroll.net/p2p/f/x509"
	"go.brendoncarroll.net/p2p/p/p2pke"

	"verifmc/evid"
	"verifmc/pk"
	"verifmc/seqmc"
)

var run *evid.Run
var t0 = time.Unix(1_700_000_000, 0)

type poolMsg struct {
	id   string // IH RH ID RD or D<side><k>
	data []byte
}

type world struct {
	s      [2]*p2pke.Session // 0 = initiator, 1 = responder
	pool   []poolMsg
	sent   [2]int
	recvd  [2]map[string]bool // data ids delivered as application data to side
	maxIdx [2]uint8
	ready  [2]bool
	trace  []string
}

func newWorld() *world {
	w := &world{}
	for i := 0; i < 2; i++ {
		w.s[i] = p2pke.NewSession(p2pke.SessionConfig{Registry: x509.DefaultRegistry(), PrivateKey: pk.Key(i), IsInit: i == 0, Now: t0, RejectAfter: time.Hour, Logger: pk.Nop})
		w.recvd[i] = map[string]bool{}
	}
	return w
}

func kindOf(m []byte) string {
	if len(m) < 4 {
		return "??"
	}
	switch n := uint32(m[0])<<24 | uint32(m[1])<<16 | uint32(m[2])<<8 | uint32(m[3]); n {
	case 0:
		return "IH"
	case 1:
		return "RH"
	case 2:
		return "ID"
	case 3:
		return "RD"
	default:
		return fmt.Sprintf("DATA%d", n)
	}
}

func (w *world) addPool(id string, data []byte) {
	for _, p := range w.pool {
		if p.id == id {
			if !bytes.Equal(p.data, data) {
				panic(violation{"handshake-message-not-stable", "Session.Handshake", fmt.Sprintf("message %s was emitted with two different byte strings", id)})
			}
			return
		}
	}
	w.pool = append(w.pool, poolMsg{id, append([]byte{}, data...)})
	sort.Slice(w.pool, func(i, j int) bool { return w.pool[i].id < w.pool[j].id })
}

type violation struct{ kind, site, detail string }

const (
	maxData = 2
)

// the action alphabet: indices are stable across states
var poolIDs = []string{"IH", "RH", "ID", "RD", "D00", "D01", "D10", "D11"}

type action struct {
	kind string // emit, deliver, drop, send
	side int
	msg  string
}

func alphabet() []action {
	var as []action
	as = append(as, action{"emit", 0, ""}, action{"emit", 1, ""})
	for _, id := range poolIDs {
		as = append(as, action{"deliver", 0, id}, action{"deliver", 1, id})
	}
	for _, id := range poolIDs {
		as = append(as, action{"drop", 0, id})
	}
	as = append(as, action{"send", 0, ""}, action{"send", 1, ""})
	return as
}

func (a action) String() string {
	switch a.kind {
	case "emit":
		return fmt.Sprintf("emit(%s)", side(a.side))
	case "deliver":
		return fmt.Sprintf("deliver(%s<-%s)", side(a.side), a.msg)
	case "drop":
		return "drop(" + a.msg + ")"
	default:
		return fmt.Sprintf("send(%s)", side(a.side))
	}
}

func side(i int) string { return []string{"I", "R"}[i] }

func (w *world) find(id string) *poolMsg {
	for i := range w.pool {
		if w.pool[i].id == id {
			return &w.pool[i]
		}
	}
	return nil
}

func payload(sideIdx, k int) []byte {
	return []byte(fmt.Sprintf("app-data-from-%s-%d", side(sideIdx), k))
}

// checkIdempotent: Handshake(nil) twice returns identical bytes.
func (w *world) checkIdempotent(i int) {
	a := w.s[i].Handshake(nil)
	b := w.s[i].Handshake(nil)
	if !bytes.Equal(a, b) {
		panic(violation{"handshake-not-idempotent", "Session.Handshake", fmt.Sprintf("%s returned different bytes on two consecutive calls", side(i))})
	}
	if a != nil {
		w.addPoolCheckOnly(kindOf(a), a)
	}
}

// addPoolCheckOnly verifies stability of the message bytes against the pool without adding.
func (w *world) addPoolCheckOnly(id string, data []byte) {
	if p := w.find(id); p != nil && !bytes.Equal(p.data, data) {
		panic(violation{"handshake-message-not-stable", "Session.Handshake", fmt.Sprintf("message %s changed although the state did not advance", id)})
	}
}

func (w *world) invariants(after string) {
	for i := 0; i < 2; i++ {
		idx := w.s[i].VerifHsIndex()
		if idx < w.maxIdx[i] {
			panic(violation{"handshake-regressed", "Session", fmt.Sprintf("%s handshake index went from %d to %d after %s", side(i), w.maxIdx[i], idx, after)})
		}
		w.maxIdx[i] = idx
		r := w.s[i].IsReady()
		if w.ready[i] && !r {
			panic(violation{"ready-reverted", "Session.IsReady", fmt.Sprintf("%s was ready and is not any more after %s", side(i), after)})
		}
		w.ready[i] = r
		w.checkIdempotent(i)
	}
}

// apply performs one action; ok=false if it is not enabled.
func (w *world) apply(a action) (ok bool) {
	switch a.kind {
	case "emit":
		m := w.s[a.side].Handshake(nil)
		if m == nil {
			return false
		}
		w.addPool(kindOf(m), m)
	case "deliver":
		p := w.find(a.msg)
		if p == nil {
			return false
		}
		isApp, out, err := w.s[a.side].Deliver(nil, p.data, t0)
		if err == nil && isApp {
			if !strings.HasPrefix(a.msg, "D") {
				panic(violation{"handshake-message-yields-app-data", "Session.Deliver", fmt.Sprintf("%s delivered to %s produced application data", a.msg, side(a.side))})
			}
			from := int(a.msg[1] - '0')
			k := int(a.msg[2] - '0')
			if from == a.side || !bytes.Equal(out, payload(from, k)) {
				panic(violation{"wrong-plaintext", "Session.Deliver", fmt.Sprintf("%s delivered to %s yielded %q", a.msg, side(a.side), out)})
			}
			if w.recvd[a.side][a.msg] {
				panic(violation{"replay-accepted", "Session.Deliver", fmt.Sprintf("%s delivered twice to %s", a.msg, side(a.side))})
			}
			w.recvd[a.side][a.msg] = true
		} else if err == nil && len(out) > 0 {
			w.addPool(kindOf(out), out)
		}
	case "drop":
		for i := range w.pool {
			if w.pool[i].id == a.msg {
				w.pool = append(w.pool[:i:i], w.pool[i+1:]...)
				return true
			}
		}
		return false
	case "send":
		if w.sent[a.side] >= maxData {
			return false
		}
		out, err := w.s[a.side].Send(nil, payload(a.side, w.sent[a.side]), t0)
		if err != nil {
			return false
		}
		id := fmt.Sprintf("D%d%d", a.side, w.sent[a.side])
		w.sent[a.side]++
		w.pool = append(w.pool, poolMsg{id, out})
		sort.Slice(w.pool, func(i, j int) bool { return w.pool[i].id < w.pool[j].id })
	}
	return true
}

func (w *world) key() string {
	var ids []string
	for _, p := range w.pool {
		ids = append(ids, p.id)
	}
	var rc []string
	for i := 0; i < 2; i++ {
		for k := range w.recvd[i] {
			rc = append(rc, side(i)+k)
		}
	}
	sort.Strings(rc)
	return fmt.Sprintf("I%d/%d R%d/%d pool=%s sent=%v recvd=%s", w.s[0].VerifHsIndex(), w.s[0].VerifNonce(), w.s[1].VerifHsIndex(), w.s[1].VerifNonce(), strings.Join(ids, ","), w.sent, strings.Join(rc, ","))
}

// fairSuffix: each side's current handshake message is delivered once more, in sequence,
// until neither produces one; then both must be ready and data must flow both ways at once.
func (w *world) fairSuffix() {
	for round := 0; round < 4; round++ {
		progressed := false
		if m := w.s[0].Handshake(nil); m != nil {
			w.s[1].Deliver(nil, m, t0)
			progressed = true
		}
		if m := w.s[1].Handshake(nil); m != nil {
			w.s[0].Deliver(nil, m, t0)
			progressed = true
		}
		if !progressed {
			break
		}
	}
	for i := 0; i < 2; i++ {
		if !w.s[i].IsReady() {
			panic(violation{"not-ready-after-fair-suffix", "Session", fmt.Sprintf("%s is not ready (index %d) after every current handshake message was delivered once more in sequence", side(i), w.s[i].VerifHsIndex())})
		}
	}
	for from := 0; from < 2; from++ {
		to := 1 - from
		msg := []byte(fmt.Sprintf("after-suffix-%d", from))
		ct, err := w.s[from].Send(nil, msg, t0)
		if err != nil {
			panic(violation{"data-after-fair-suffix", "Session.Send", fmt.Sprintf("%s cannot send after the fair suffix: %v", side(from), err)})
		}
		isApp, out, err := w.s[to].Deliver(nil, ct, t0)
		if err != nil || !isApp || !bytes.Equal(out, msg) {
			panic(violation{"data-after-fair-suffix", "Session.Deliver", fmt.Sprintf("the first message %s sends after the fair suffix (counter %d) is not delivered to %s: isApp=%v err=%v", side(from), w.s[from].VerifNonce()-1, side(to), isApp, err)})
		}
	}
}

func main() {
	run = evid.Start("C06", "model_checking")
	acts := alphabet()
	names := func(path []int) []string {
		var out []string
		for _, p := range path {
			out = append(out, acts[p].String())
		}
		return out
	}
	// replay path on a fresh pair; suffix=true additionally runs the fair suffix on the result
	replay := func(path []int, suffix bool) (key string, ok bool, v *violation) {
		w := newWorld()
		defer func() {
			if r := recover(); r != nil {
				if vv, isV := r.(violation); isV {
					v = &vv
				} else {
					v = &violation{"panic", "Session", fmt.Sprintf("panic: %v", r)}
				}
				ok = true
			}
		}()
		w.invariants("start")
		for i, ai := range path {
			if !w.apply(acts[ai]) {
				if i == len(path)-1 {
					return "", false, nil
				}
				return "", false, nil
			}
			w.invariants(acts[ai].String())
		}
		key = w.key()
		if suffix {
			w.fairSuffix()
		}
		return key, true, nil
	}
	suffixRuns := 0
	step := func(path []int) (string, bool, bool) {
		key, ok, v := replay(path, false)
		if !ok {
			return "", false, true
		}
		if v == nil {
			// differential oracle from this (possibly non-initial) state
			_, _, v = replay(path, true)
			suffixRuns++
		}
		if v != nil {
			run.Violate(evid.Violation{Kind: v.kind, Site: v.site, Detail: v.detail, Witness: map[string]any{"actions": names(path)}})
			return "VIOL" + v.kind + fmt.Sprint(path), true, true
		}
		run.Outcome(strings.SplitN(key, " pool", 2)[0])
		return key, true, false
	}
	st := seqmc.BFS(seqmc.Config{NumOps: len(acts), MaxDepth: evid.Pick(run, 40, 60), MaxStates: evid.Pick(run, 400000, 4000000)}, step)
	for _, p := range st.SamplePaths {
		run.Sample(map[string]any{"actions": names(p)})
	}
	fmt.Printf("  states=%d transitions=%d depth=%d exhaustive=%v\n", st.States, st.Transitions, st.DepthCompleted, st.Exhaustive)
	run.Set("states", st.States)
	run.Set("transitions", st.Transitions)
	run.Set("traces_validated_against_impl", st.Transitions)
	run.Set("fair_suffix_runs", st.States)
	run.Set("exhaustive", st.Exhaustive)
	run.Set("caps_hit", st.CapHit)
	run.Set("explanation", "BFS closure over emit/deliver/drop/send actions on a real Session pair (state = handshake indices, counters, pool of genuine messages, delivered data); from every reached state a fresh pair is rebuilt, the same actions replayed and the fair suffix + immediate data exchange checked")
	run.Assume("at most 2 application messages per direction; genuine messages only (mutations belong to C02/C03)")
	run.Finish()
}
