// C20: iterative DHT operations are bounded, non-redundant and report truthfully.
// Exhaustive enumeration of environment answers (lazy choice tree: the behaviour of a
// node is chosen when it is first asked) fed to the real DHTFindNode/DHTJoin/DHTGet/DHTPut.
package main

import (
	"bytes"
	"errors"
	"fmt"
	"io"
	"log"
	"runtime"
	"sort"
	"strings"
	"sync"
	"time"

	"go.brendoncarroll.net/p2p"
	"go.brendoncarroll.net/p2p/p/kademlia"

	"verifmc/evid"
	"verifmc/seqmc"
)

var run *evid.Run

func pid(first byte) (ret p2p.PeerID) {
	ret[0] = first
	if first != 0 {
		ret[31] = 0x77
	}
	return ret
}

// pid12 is pid with the distinguishing byte moved behind the first machine word.
func pid12(b byte) (ret p2p.PeerID) {
	for i := 0; i < 9; i++ {
		ret[i] = 0x5a
	}
	ret[9] = b
	ret[31] = 0x77
	return ret
}

var universe12 []p2p.PeerID

type behaviour struct {
	fail     bool
	huge     bool
	peers    []int // indices into universe
	accepted bool
	value    int // 0 none, 1 valid, 2 invalid
}

type env struct {
	universe []p2p.PeerID // last one is the fabricated all-zero id owned by nobody
	real     int          // number of real nodes
	ch       *seqmc.Chooser
	beh      map[int]*behaviour
	asked    map[int]int
	askOrder []int
	respond  map[int]bool
	accepts  map[int]bool
	op       string
	aborted  bool
}

type abortRun struct{}

func (e *env) idx(id p2p.PeerID) int {
	for i, u := range e.universe {
		if u == id {
			return i
		}
	}
	return -1
}

func (e *env) info(i int) kademlia.NodeInfo {
	return kademlia.NodeInfo{ID: e.universe[i], Info: []byte{byte(i)}}
}

// ask is the single environment entry point: decides (lazily) how node i behaves.
func (e *env) ask(i int) (*behaviour, error) {
	e.asked[i]++
	e.askOrder = append(e.askOrder, i)
	if len(e.askOrder) > 10*len(e.universe) {
		e.aborted = true
		panic(abortRun{})
	}
	if i < 0 || i >= e.real {
		return nil, errors.New("unreachable")
	}
	b, ok := e.beh[i]
	if !ok {
		b = &behaviour{}
		m := len(e.universe)
		c := e.ch.Choose((1 << m) + 2)
		switch {
		case c < 1<<m:
			for j := 0; j < m; j++ {
				if c&(1<<j) != 0 {
					b.peers = append(b.peers, j)
				}
			}
		case c == 1<<m:
			b.fail = true
		default:
			b.huge = true
		}
		if !b.fail {
			switch e.op {
			case "put":
				b.accepted = e.ch.Choose(2) == 0
			case "get":
				b.value = e.ch.Choose(3)
			}
		}
		e.beh[i] = b
	}
	if b.fail {
		return nil, errors.New("node failed")
	}
	e.respond[i] = true
	if b.accepted {
		e.accepts[i] = true
	}
	return b, nil
}

func (e *env) peerList(b *behaviour) []kademlia.NodeInfo {
	var out []kademlia.NodeInfo
	if b.huge {
		for r := 0; r < hugeRepeat; r++ {
			for j := range e.universe {
				out = append(out, e.info(j))
			}
		}
		return out
	}
	for _, j := range b.peers {
		out = append(out, e.info(j))
	}
	return out
}

func dist(key []byte, id p2p.PeerID) []byte {
	l := len(key)
	if l > 32 {
		l = 32
	}
	d := make([]byte, l)
	for i := 0; i < l; i++ {
		d[i] = key[i] ^ id[i]
	}
	return d
}

func nearer(key []byte, a, b p2p.PeerID) bool { return bytes.Compare(dist(key, a), dist(key, b)) < 0 }

type scenario struct {
	op      string
	initial []int
	key     p2p.PeerID
	minAcc  int
}

func (s scenario) String() string {
	return fmt.Sprintf("%s initial=%v key=%02x.. minAccepted=%d", s.op, s.initial, s.key[0], s.minAcc)
}

func (e *env) describe() []string {
	var out []string
	for _, i := range e.askOrder {
		b := e.beh[i]
		switch {
		case i >= e.real:
			out = append(out, fmt.Sprintf("ask(%02x)->unreachable", e.universe[i][0]))
		case b.fail:
			out = append(out, fmt.Sprintf("ask(%02x)->error", e.universe[i][0]))
		case b.huge:
			out = append(out, fmt.Sprintf("ask(%02x)->huge-list acc=%v val=%d", e.universe[i][0], b.accepted, b.value))
		default:
			var ps []string
			for _, j := range b.peers {
				ps = append(ps, fmt.Sprintf("%02x", e.universe[j][0]))
			}
			out = append(out, fmt.Sprintf("ask(%02x)->peers%v acc=%v val=%d", e.universe[i][0], ps, b.accepted, b.value))
		}
	}
	return out
}

var hugeRepeat = 64

var validValue = []byte("valid-value")
var invalidValue = []byte("INVALID")

func runOne(universe []p2p.PeerID, real int, sc scenario, ch *seqmc.Chooser) {
	// "get12"/"put12": the same operation with a 12-byte key over the universe whose ids agree on
	// their first eight bytes (comparisons must look past the first machine word)
	keyLen := 32
	if strings.HasSuffix(sc.op, "12") {
		keyLen, sc.op, universe = 12, strings.TrimSuffix(sc.op, "12"), universe12
	}
	e := &env{universe: universe, real: real, ch: ch, beh: map[int]*behaviour{}, asked: map[int]int{}, respond: map[int]bool{}, accepts: map[int]bool{}, op: sc.op}
	var initial []kademlia.NodeInfo
	for _, i := range sc.initial {
		initial = append(initial, e.info(i))
	}
	viol := func(kind, site, detail string) {
		run.Violate(evid.Violation{Kind: kind, Site: site, Detail: detail,
			Witness: map[string]any{"scenario": sc.String(), "asks": e.describe(), "choices": ch.Trace()}})
	}
	site := map[string]string{"find": "DHTFindNode", "join": "DHTJoin", "get": "DHTGet", "put": "DHTPut"}[sc.op]
	var (
		fres   *kademlia.DHTFindNodeResult
		gres   *kademlia.DHTGetResult
		pres   *kademlia.DHTPutResult
		err    error
		added  int
		addCnt = map[int]int{}
	)
	func() {
		defer func() {
			if r := recover(); r != nil {
				if _, ok := r.(abortRun); ok {
					viol("does-not-terminate", site, fmt.Sprintf("more than %d asks", 10*len(universe)))
					return
				}
				viol("panic", site, fmt.Sprintf("panic: %v", r))
				e.aborted = true
			}
		}()
		switch sc.op {
		case "find":
			fres, err = kademlia.DHTFindNode(kademlia.DHTFindNodeParams{Initial: initial, Target: sc.key,
				Ask: func(n kademlia.NodeInfo, req kademlia.FindNodeReq) (kademlia.FindNodeRes, error) {
					b, err := e.ask(e.idx(n.ID))
					if err != nil {
						return kademlia.FindNodeRes{}, err
					}
					return kademlia.FindNodeRes{Nodes: e.peerList(b)}, nil
				}})
		case "join":
			added = kademlia.DHTJoin(kademlia.DHTJoinParams{Initial: initial, Target: sc.key,
				AddPeer: func(id p2p.PeerID, info []byte) bool {
					i := e.idx(id)
					addCnt[i]++
					return addCnt[i] == 1
				},
				Ask: func(n kademlia.NodeInfo, req kademlia.FindNodeReq) (kademlia.FindNodeRes, error) {
					b, err := e.ask(e.idx(n.ID))
					if err != nil {
						return kademlia.FindNodeRes{}, err
					}
					return kademlia.FindNodeRes{Nodes: e.peerList(b)}, nil
				}})
		case "get":
			gres, err = kademlia.DHTGet(kademlia.DHTGetParams{Initial: initial, Key: sc.key[:keyLen],
				Validate: func(v []byte) bool { return bytes.Equal(v, validValue) },
				Ask: func(n kademlia.NodeInfo, req kademlia.GetReq) (kademlia.GetRes, error) {
					b, err := e.ask(e.idx(n.ID))
					if err != nil {
						return kademlia.GetRes{}, err
					}
					res := kademlia.GetRes{Closer: e.peerList(b)}
					switch b.value {
					case 1:
						res.Value = validValue
					case 2:
						res.Value = invalidValue
					}
					return res, nil
				}})
		case "put":
			pres, err = kademlia.DHTPut(kademlia.DHTPutParams{Initial: initial, Key: sc.key[:keyLen], Value: []byte("v"), MinAccepted: sc.minAcc,
				Ask: func(n kademlia.NodeInfo, req kademlia.PutReq) (kademlia.PutRes, error) {
					b, err := e.ask(e.idx(n.ID))
					if err != nil {
						return kademlia.PutRes{}, err
					}
					return kademlia.PutRes{Accepted: b.accepted, Closer: e.peerList(b)}, nil
				}})
		}
	}()
	run.Add("evaluations", 1)
	if e.aborted {
		return
	}
	// (1) non-redundancy
	for i, n := range e.asked {
		if n > 1 {
			viol("node-asked-twice", site, fmt.Sprintf("node %02x.. asked %d times", universe[i][0], n))
			break
		}
	}
	distinctAsked := len(e.asked)
	key := sc.key[:keyLen]
	nearestOf := func(set map[int]bool) (best int) {
		best = -1
		for i := range set {
			if best < 0 || nearer(key, universe[i], universe[best]) {
				best = i
			}
		}
		return best
	}
	askedSet := map[int]bool{}
	for i := range e.asked {
		askedSet[i] = true
	}
	switch sc.op {
	case "find":
		if (err == nil) != (fres.Closest == sc.key) {
			viol("find-error-iff-not-found", site, fmt.Sprintf("err=%v closest=%02x..", err, fres.Closest[0]))
		}
		known := map[int]bool{}
		for _, i := range sc.initial {
			known[i] = true
		}
		for i := range e.respond {
			b := e.beh[i]
			if b.huge {
				for j := range universe {
					known[j] = true
				}
			}
			for _, j := range b.peers {
				known[j] = true
			}
		}
		ci := e.idx(fres.Closest)
		if len(known) > 0 && len(sc.initial) > 0 {
			if ci < 0 || !known[ci] {
				viol("find-closest-unknown", site, fmt.Sprintf("closest=%x.. was never an initial or returned peer", fres.Closest[:2]))
			} else {
				if !bytes.Equal(fres.Info, []byte{byte(ci)}) {
					viol("find-info-mismatch", site, fmt.Sprintf("Info=%v is not the info of closest=%02x..", fres.Info, fres.Closest[0]))
				}
				// weakest reading of "nearest among those contacted": only nodes that
				// answered count (a fabricated id that never answers proves nothing)
				for i := range e.respond {
					if nearer(key, universe[i], fres.Closest) {
						viol("find-closest-not-nearest", site, fmt.Sprintf("closest=%02x.. but contacted node %02x.. is nearer to %02x..", fres.Closest[0], universe[i][0], sc.key[0]))
						break
					}
				}
			}
		}
		for _, i := range sc.initial {
			if universe[i] == sc.key && err != nil {
				viol("find-misses-initial-target", site, "target is among the initial peers but was not found")
			}
		}
		if fres.Contacted != len(e.respond) {
			viol("find-contacted-count", site, fmt.Sprintf("Contacted=%d, distinct nodes that answered=%d", fres.Contacted, len(e.respond)))
		}
		run.Outcome(fmt.Sprintf("find ok=%v asked=%d", err == nil, distinctAsked))
	case "join":
		distinctAdded := 0
		for range addCnt {
			distinctAdded++
		}
		if added != distinctAdded {
			viol("join-added-count", site, fmt.Sprintf("added=%d distinct visited ids=%d", added, distinctAdded))
		}
		for i, n := range addCnt {
			if n > 1 {
				viol("node-visited-twice", site, fmt.Sprintf("AddPeer(%02x..) called %d times", universe[i][0], n))
				break
			}
		}
		run.Outcome(fmt.Sprintf("join added=%d asked=%d", added, distinctAsked))
	case "get":
		var validFrom []int
		for i := range e.respond {
			if e.beh[i].value == 1 {
				validFrom = append(validFrom, i)
			}
		}
		sort.Ints(validFrom)
		if (err == nil) != (len(validFrom) > 0) {
			viol("get-error-iff-no-value", site, fmt.Sprintf("err=%v but %d contacted nodes returned a valid value", err, len(validFrom)))
		}
		if err == nil {
			fi := e.idx(gres.From)
			if !bytes.Equal(gres.Value, validValue) || fi < 0 || !e.respond[fi] || e.beh[fi].value != 1 {
				viol("get-value-provenance", site, fmt.Sprintf("value=%q from=%02x..", gres.Value, gres.From[0]))
			}
		} else if gres != nil && gres.Value != nil {
			viol("get-value-provenance", site, fmt.Sprintf("error but value=%q", gres.Value))
		}
		if gres != nil {
			if len(e.respond) > 0 {
				ci := e.idx(gres.Closest)
				nr, na := nearestOf(e.respond), nearestOf(askedSet)
				if ci < 0 || !askedSet[ci] || (nearer(key, universe[nr], gres.Closest) && nearer(key, universe[na], gres.Closest)) {
					viol("get-closest-not-nearest", site, fmt.Sprintf("closest=%02x.. but nearest responder to %02x.. is %02x..", gres.Closest[0], sc.key[0], universe[nr][0]))
				}
			}
			if gres.NumContacted != distinctAsked || gres.NumResponded != len(e.respond) {
				viol("get-counts", site, fmt.Sprintf("NumContacted=%d NumResponded=%d, distinct asked=%d answered=%d", gres.NumContacted, gres.NumResponded, distinctAsked, len(e.respond)))
			}
		}
		run.Outcome(fmt.Sprintf("get ok=%v asked=%d", err == nil, distinctAsked))
	case "put":
		min := sc.minAcc
		if min < 1 {
			min = 2
		}
		if pres.Accepted != len(e.accepts) {
			viol("put-accepted-count", site, fmt.Sprintf("Accepted=%d but %d distinct nodes accepted", pres.Accepted, len(e.accepts)))
		}
		if (err != nil) != (len(e.accepts) < min) {
			viol("put-error-iff-below-min", site, fmt.Sprintf("err=%v with %d distinct acceptors, min=%d", err, len(e.accepts), min))
		}
		if len(e.accepts) > 0 {
			ci := e.idx(pres.Closest)
			na := nearestOf(e.accepts)
			if ci < 0 || !e.accepts[ci] || nearer(key, universe[na], pres.Closest) {
				viol("put-closest-not-nearest-acceptor", site, fmt.Sprintf("closest=%02x.. but nearest accepting node to %02x.. is %02x..", pres.Closest[0], sc.key[0], universe[na][0]))
			}
		}
		if pres.Contacted != distinctAsked || pres.Responded != len(e.respond) {
			viol("put-counts", site, fmt.Sprintf("Contacted=%d Responded=%d, distinct asked=%d answered=%d", pres.Contacted, pres.Responded, distinctAsked, len(e.respond)))
		}
		run.Outcome(fmt.Sprintf("put ok=%v acc=%d asked=%d", err == nil, len(e.accepts), distinctAsked))
	}
}

func main() {
	run = evid.Start("C20", "model_checking")
	log.SetOutput(io.Discard)
	firsts := []byte{0x01, 0x02, 0x04, 0x80}
	if run.Thorough() {
		firsts = []byte{0x01, 0x02, 0x04, 0x05, 0x80}
	} else {
		firsts = []byte{0x01, 0x04, 0x80}
	}
	var universe []p2p.PeerID
	for _, f := range firsts {
		universe = append(universe, pid(f))
	}
	real := len(universe)
	universe = append(universe, p2p.PeerID{}) // fabricated id nobody owns
	keys := []p2p.PeerID{pid(0x03), pid(0x81), universe[1]}
	var scs []scenario
	for _, op := range []string{"find", "join", "get", "put"} {
		for mask := 0; mask < 1<<real; mask++ {
			var initial []int
			for i := 0; i < real; i++ {
				if mask&(1<<i) != 0 {
					initial = append(initial, i)
				}
			}
			for _, k := range keys {
				if op == "put" {
					scs = append(scs, scenario{op, initial, k, 1}, scenario{op, initial, k, 0})
				} else {
					scs = append(scs, scenario{op, initial, k, 0})
				}
			}
		}
	}
	// initial sets that contain the fabricated id / duplicates
	scs = append(scs, scenario{"find", []int{real}, keys[0], 0}, scenario{"put", []int{real, 0}, keys[0], 1}, scenario{"get", []int{0, 0, 1}, keys[0], 0}, scenario{"join", []int{0, 0}, keys[0], 0})
	for _, f := range firsts {
		universe12 = append(universe12, pid12(f))
	}
	universe12 = append(universe12, p2p.PeerID{})
	for _, op := range []string{"get12", "put12"} {
		for mask := 1; mask < 1<<real; mask++ {
			var initial []int
			for i := 0; i < real; i++ {
				if mask&(1<<i) != 0 {
					initial = append(initial, i)
				}
			}
			for _, k := range []p2p.PeerID{pid12(0x03), pid12(0x81), universe12[1]} {
				scs = append(scs, scenario{op, initial, k, 0})
			}
		}
	}
	longHistories()
	hugeRepeat = evid.Pick(run, 64, 1000)
	limit := evid.Pick(run, 400_000, 1_000_000)
	// the thorough universe (5 real nodes) has choice trees far beyond any budget: every
	// scenario is cut at 1 million leaves, and after 8 minutes the remaining ones at 2000
	deadline := time.Now().Add(evid.Pick(run, time.Hour, 8*time.Minute))
	var wg sync.WaitGroup
	var mu sync.Mutex
	leavesTotal, complete := 0, true
	work := make(chan scenario)
	for w := 0; w < runtime.NumCPU(); w++ {
		wg.Add(1)
		go func() {
			defer wg.Done()
			for sc := range work {
				lim := limit
				if time.Now().After(deadline) {
					lim = 2000
				}
				n, ok := seqmc.Enumerate(lim, func(ch *seqmc.Chooser) { runOne(universe, real, sc, ch) })
				mu.Lock()
				leavesTotal += n
				if !ok {
					complete = false
					run.Set("caps_hit", fmt.Sprintf("scenario %s stopped after %d leaves", sc, n))
				}
				mu.Unlock()
			}
		}()
	}
	for _, sc := range scs {
		work <- sc
	}
	close(work)
	wg.Wait()
	run.Set("states", len(scs))
	run.Set("transitions", leavesTotal)
	run.Set("traces_validated_against_impl", leavesTotal)
	run.Set("exhaustive", complete)
	run.Set("scenarios", len(scs))
	run.Set("universe", fmt.Sprintf("%d real nodes %x + fabricated zero id; peer-list choices per asked node: every subset of the universe, an error, a %dx repeated full list", real, firsts, hugeRepeat))
	run.Sample(map[string]any{"scenario": "put initial=[0 2] key=03..", "asks": []string{"ask(01)->peers[80 00] acc=true", "ask(80)->peers[01] acc=false"}})
	run.Set("explanation", "states = (operation, initial peer set, key, MinAccepted) scenarios; transitions = leaves of the lazy environment-choice tree (one complete run of the real DHT operation per leaf)")
	run.Assume("universes of 3 (quick) / 5 (thorough) real nodes; node behaviour is deterministic per node (same answer if asked again)")
	run.Finish()
}
