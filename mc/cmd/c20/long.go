package main

import (
	"bytes"
	"fmt"

	"go.brendoncarroll.net/p2p"
	"go.brendoncarroll.net/p2p/p/kademlia"

	"verifmc/evid"
)

// Long histories inside one operation: the enumerated universes have at most five nodes,
// so anything that only goes wrong after dozens of contacts is out of their reach. These
// rows are scripted (one execution each): a referral graph over 40-120 nodes is fed to the
// real operations and the same oracle applies: nobody is asked twice and the reported
// counts are the true ones.
func longHistories() {
	type graph struct {
		name    string
		initial []int
		refs    func(i int) []int // whom node i (1-based id byte) refers to
		accepts func(i int) bool
		n       int
	}
	const far = 0xF0
	graphs := []graph{
		{name: "40-initial-peers-all-refer-to-the-nearest", n: 40,
			initial: seq(1, 40), refs: func(i int) []int { return []int{1} }, accepts: func(i int) bool { return i == 1 }},
		{name: "chain-of-100-then-the-far-initial-peer-refers-back-to-its-start", n: 100,
			initial: []int{far, 100},
			refs: func(i int) []int {
				switch {
				case i == far:
					return []int{100}
				case i > 1:
					return []int{i - 1}
				}
				return nil
			}, accepts: func(i int) bool { return i == 1 }},
		{name: "chain-of-60-every-node-also-refers-to-the-chain-start", n: 60,
			initial: []int{far, 60},
			refs: func(i int) []int {
				if i == far {
					return []int{60, 59}
				}
				if i > 1 {
					return []int{i - 1, 60}
				}
				return []int{60}
			}, accepts: func(i int) bool { return i <= 2 }},
	}
	id := func(i int) p2p.PeerID {
		var p p2p.PeerID
		p[0] = byte(i)
		p[31] = 0x77
		return p
	}
	info := func(i int) kademlia.NodeInfo { return kademlia.NodeInfo{ID: id(i), Info: []byte{byte(i)}} }
	for _, g := range graphs {
		for _, op := range []string{"find", "join", "get", "put"} {
			g, op := g, op
			asked := map[int]int{}
			accepted := map[int]bool{}
			ask := func(n kademlia.NodeInfo) []kademlia.NodeInfo {
				i := int(n.ID[0])
				asked[i]++
				if len(asked) > 10*g.n+10 || asked[i] > 3 {
					panic("runaway")
				}
				var out []kademlia.NodeInfo
				for _, r := range g.refs(i) {
					out = append(out, info(r))
				}
				return out
			}
			var initial []kademlia.NodeInfo
			for _, i := range g.initial {
				initial = append(initial, info(i))
			}
			var key p2p.PeerID // the all-zero key: distance = the id itself
			site := map[string]string{"find": "DHTFindNode", "join": "DHTJoin", "get": "DHTGet", "put": "DHTPut"}[op]
			w := map[string]any{"graph": g.name, "op": op}
			viol := func(kind, detail string) {
				run.Violate(evid.Violation{Kind: kind, Site: site, Detail: g.name + ": " + detail, Witness: w})
			}
			func() {
				defer func() {
					if r := recover(); r != nil {
						viol("does-not-terminate", fmt.Sprintf("%v after %d asks", r, len(asked)))
					}
				}()
				var contacted, acceptedN = -1, -1
				var perr error
				switch op {
				case "find":
					res, _ := kademlia.DHTFindNode(kademlia.DHTFindNodeParams{Initial: initial, Target: key,
						Ask: func(n kademlia.NodeInfo, _ kademlia.FindNodeReq) (kademlia.FindNodeRes, error) {
							return kademlia.FindNodeRes{Nodes: ask(n)}, nil
						}})
					contacted = res.Contacted
				case "join":
					kademlia.DHTJoin(kademlia.DHTJoinParams{Initial: initial, Target: key,
						AddPeer: func(p2p.PeerID, []byte) bool { return true },
						Ask: func(n kademlia.NodeInfo, _ kademlia.FindNodeReq) (kademlia.FindNodeRes, error) {
							return kademlia.FindNodeRes{Nodes: ask(n)}, nil
						}})
				case "get":
					res, _ := kademlia.DHTGet(kademlia.DHTGetParams{Initial: initial, Key: key[:],
						Validate: func(v []byte) bool { return bytes.Equal(v, validValue) },
						Ask: func(n kademlia.NodeInfo, _ kademlia.GetReq) (kademlia.GetRes, error) {
							return kademlia.GetRes{Closer: ask(n)}, nil
						}})
					contacted = res.NumContacted
				case "put":
					var res *kademlia.DHTPutResult
					res, perr = kademlia.DHTPut(kademlia.DHTPutParams{Initial: initial, Key: key[:], Value: []byte("v"), MinAccepted: 3,
						Ask: func(n kademlia.NodeInfo, _ kademlia.PutReq) (kademlia.PutRes, error) {
							closer := ask(n)
							i := int(n.ID[0])
							if g.accepts(i) {
								accepted[i] = true
							}
							return kademlia.PutRes{Accepted: g.accepts(i), Closer: closer}, nil
						}})
					contacted, acceptedN = res.Contacted, res.Accepted
				}
				run.Add("evaluations", 1)
				for i, n := range asked {
					if n > 1 {
						viol("node-asked-twice", fmt.Sprintf("node %02x asked %d times (%d distinct nodes asked)", i, n, len(asked)))
						return
					}
				}
				if contacted >= 0 && contacted != len(asked) {
					viol("contacted-count", fmt.Sprintf("Contacted=%d, distinct nodes asked=%d", contacted, len(asked)))
				}
				if op == "put" {
					if acceptedN != len(accepted) {
						viol("put-accepted-count", fmt.Sprintf("Accepted=%d but %d distinct nodes accepted", acceptedN, len(accepted)))
					}
					if len(accepted) < 3 && perr == nil {
						viol("put-below-minimum-without-error", fmt.Sprintf("%d nodes accepted, MinAccepted=3, no error", len(accepted)))
					}
				}
				run.Outcome(fmt.Sprintf("long %s %s asked=%d", op, g.name, len(asked)))
			}()
		}
	}
}

func seq(a, b int) []int {
	var out []int
	for i := a; i <= b; i++ {
		out = append(out, i)
	}
	return out
}
