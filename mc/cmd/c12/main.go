// C12: Close ends everything promptly and for good.
// Controlled-scheduler exploration of Close against blocked and late Receive/ServeAsk
// calls on every in-memory stack and on the bare hubs.
package main

import (
	"context"
	"fmt"
	"strings"
	"time"

	"go.brendoncarroll.net/p2p"

	"verifmc/evid"
	"verifmc/explore"
	"verifmc/hx"
	"verifmc/netrows"
	"verifmc/stacks"
	"verifmc/vrt"
)

type ev struct {
	Kind string
	Who  string
	Err  string
	Nil  bool
	Step int // for cb: the step at which the hand-off to the receiver was committed
}

type ledger struct {
	cell       hx.Cell
	events     []ev
	closeRet   int // index of the close-ret event, -1 if not yet
	closeStep  int // scheduler step at which Close returned
	closeDone  bool
	lateDone   bool
	callbacks  map[string]int
	inLateCall string
}

func led(x *vrt.Exec) *ledger { return x.Data.(*ledger) }

func (l *ledger) add(e ev) {
	l.cell.Touch()
	l.events = append(l.events, e)
	if x := vrt.Cur(); x != nil {
		x.Logf("%s %s %s", e.Kind, e.Who, e.Err)
	}
}

type cfg struct {
	stack       stacks.Config
	receivers   int
	doubleClose bool
	horizon     time.Duration
	// backlog: nobody receives; the peer's messages pile up in the stack (every receive worker
	// is parked holding one) before Close is called
	backlog bool
}

func (c cfg) name() string {
	if c.backlog {
		return fmt.Sprintf("%s-backlog-dc%v", c.stack.Kind, c.doubleClose)
	}
	return fmt.Sprintf("%s-r%d-dc%v", c.stack.Kind, c.receivers, c.doubleClose)
}

func errs(err error) string {
	if err == nil {
		return ""
	}
	return err.Error()
}

func scenario(c cfg, pb int) *explore.Scenario {
	sc := &explore.Scenario{Name: c.name(), PB: pb}
	sc.Setup = func(x *vrt.Exec) {
		x.Data = &ledger{closeRet: -1, callbacks: map[string]int{}}
		x.MaxSteps = 6000
		x.TimerHorizon = c.horizon
		x.NumWorkers = 1
	}
	sc.Body = func(x *vrt.Exec) {
		l := led(x)
		st := stacks.Build(c.stack)
		target, peer := st.Nodes[0], st.Nodes[1]
		bg := context.Background()
		sendCtx, cancelSend := hx.WithCancel(bg)
		recvBody := func(name string) {
			l.add(ev{Kind: "call", Who: name})
			err := target.Receive(bg, func(m stacks.Msg) {
				l.add(ev{Kind: "cb", Who: name, Step: x.Me().LastCommStep})
				l.callbacks[name]++
				vrt.PointAlways("callback body")
			})
			l.add(ev{Kind: "ret", Who: name, Err: errs(err), Nil: err == nil})
		}
		serveBody := func(name string) {
			l.add(ev{Kind: "call", Who: name})
			err := target.ServeAsk(bg, func(ctx context.Context, resp []byte, m stacks.Msg) int {
				l.add(ev{Kind: "cb", Who: name, Step: x.Me().LastCommStep})
				l.callbacks[name]++
				return 0
			})
			l.add(ev{Kind: "ret", Who: name, Err: errs(err), Nil: err == nil})
		}
		for j := 0; j < c.receivers; j++ {
			name := fmt.Sprintf("R%d", j)
			vrt.Go(name, func() { recvBody(name) })
		}
		if st.HasAsk {
			vrt.Go("S0", func() { serveBody("S0") })
		}
		// set-up interleavings are not the subject: let every thread reach its blocking
		// point, then explore the race between the in-flight message, Close and late calls
		x.Settle()
		if c.backlog {
			x.NoBranch = true
			for k := 0; k < 3; k++ {
				peer.Tell(sendCtx, 0, p2p.IOVec{[]byte(fmt.Sprintf("backlog-%d", k))})
				x.Settle()
			}
			x.NoBranch = false
		}
		if !c.backlog {
			vrt.Go("sender", func() {
				// more than one fragment where the stack fragments (inner MTUs 40 / 64)
				err := peer.Tell(sendCtx, 0, p2p.IOVec{[]byte("hello-close-" + strings.Repeat("x", 58))})
				l.add(ev{Kind: "tell-ret", Who: "sender", Err: errs(err)})
			})
		}
		vrt.Go("closer", func() {
			vrt.PointAlways("close")
			l.add(ev{Kind: "close-call"})
			err := target.Close()
			l.closeRet = len(l.events)
			l.closeStep = x.Steps
			l.add(ev{Kind: "close-ret", Err: errs(err)})
			if c.doubleClose {
				func() {
					defer func() {
						if r := recover(); r != nil {
							l.add(ev{Kind: "second-close-panic", Err: fmt.Sprint(r)})
						}
					}()
					target.Close()
				}()
			}
			l.cell.Touch()
			l.closeDone = true
		})
		vrt.Go("late", func() {
			hx.WaitUntil(&l.cell, "late: wait for Close to return", func() bool { return l.closeDone })
			for k := 0; k < 2; k++ {
				name := fmt.Sprintf("L%d", k)
				l.inLateCall = name
				recvBody(name)
			}
			if st.HasAsk {
				for k := 0; k < 2; k++ {
					name := fmt.Sprintf("LS%d", k)
					l.inLateCall = name
					serveBody(name)
				}
			}
			l.inLateCall = ""
			l.cell.Touch()
			l.lateDone = true
		})
		vrt.Go("finalizer", func() {
			hx.WaitUntil(&l.cell, "finalizer: wait", func() bool { return l.closeDone && l.lateDone })
			x.NoBranch = true // tear-down is deterministic
			cancelSend()
			peer.Close()
			for _, cl := range st.Underlying {
				cl()
			}
		})
	}
	sc.Check = func(x *vrt.Exec) []explore.Finding { return check(c, x) }
	sc.Outcome = func(x *vrt.Exec) string {
		l := led(x)
		s := ""
		for _, e := range l.events {
			if e.Kind == "ret" {
				if e.Nil {
					s += e.Who + ":nil "
				} else {
					s += e.Who + ":err "
				}
			}
		}
		for _, t := range x.Parked() {
			s += "parked:" + t.Name + " "
		}
		return s
	}
	return sc
}

func check(c cfg, x *vrt.Exec) []explore.Finding {
	l := led(x)
	site := c.stack.Kind
	var fs []explore.Finding
	add := func(kind, detail string) { fs = append(fs, explore.Finding{Kind: kind, Site: site, Detail: detail}) }
	parked := map[string]*vrt.Thread{}
	for _, t := range x.Parked() {
		parked[t.Name] = t
	}
	if x.HorizonHit {
		if l.inLateCall != "" {
			add("spin-after-close", fmt.Sprintf("%s made after Close returned neither returns nor blocks: it spins (step horizon hit inside the call)", l.inLateCall))
		} else {
			add("step-horizon", "execution did not quiesce within the step horizon")
		}
		return fs
	}
	returned := map[string]ev{}
	cbAfterClose := false
	for i, e := range l.events {
		switch e.Kind {
		case "ret":
			returned[e.Who] = e
		case "cb":
			// weakest reading: the hand-off itself (the rendezvous that gives the message to
			// the receiver) must not be ordered after Close's return; a callback whose
			// hand-off was committed earlier may still be running
			if l.closeRet >= 0 && i > l.closeRet && e.Step > l.closeStep {
				cbAfterClose = true
				add("delivery-after-close", fmt.Sprintf("a message was handed to %s's callback after Close had returned", e.Who))
			}
		case "second-close-panic":
			add("second-close-panics", "second Close panicked: "+e.Err)
		}
	}
	_ = cbAfterClose
	if !l.closeDone {
		if t, ok := parked["closer"]; ok {
			add("close-blocked", "Close itself never returned; blocked at "+t.Pending())
		}
		return fs
	}
	names := []string{}
	for j := 0; j < c.receivers; j++ {
		names = append(names, fmt.Sprintf("R%d", j))
	}
	names = append(names, "S0", "L0", "L1", "LS0", "LS1")
	for _, n := range names {
		e, ret := returned[n]
		late := strings.HasPrefix(n, "L")
		what := "Receive"
		if strings.Contains(n, "S") {
			what = "ServeAsk"
		}
		if ret {
			if e.Nil && late {
				add("success-after-close", fmt.Sprintf("%s called after Close returned reported success", what))
			}
			if e.Nil && !late && l.callbacks[n] == 0 {
				add("success-without-message", fmt.Sprintf("%s blocked during Close returned nil without having received anything", what))
			}
			continue
		}
		// did not return
		if !late {
			if t, ok := parked[n]; ok {
				add("blocked-after-close", fmt.Sprintf("%s that was blocked when Close was called is still blocked at %s", what, t.Pending()))
			}
		} else if n == l.inLateCall {
			if t, ok := parked["late"]; ok {
				add("blocked-after-close", fmt.Sprintf("%s called after Close returned blocks at %s", what, t.Pending()))
			}
		}
	}
	// goroutines started by the library must be gone once every node is closed
	if l.lateDone {
		for _, t := range x.Threads {
			if !t.Done && (t.Name == "go" || t.Name == "errgroup") {
				add("goroutine-leak", fmt.Sprintf("goroutine started at %s is still alive (at %s) after all swarms were closed", t.Site, t.Pending()))
				break
			}
		}
	}
	return fs
}

func main() {
	run := evid.Start("C12", "model_checking")
	pb := evid.Pick(run, 1, 2)
	var scs []*explore.Scenario
	mk := func(kind string) stacks.Config {
		c := stacks.Config{Kind: kind, N: 2}
		switch kind {
		case "frag", "mux-frag":
			c.InnerMTU, c.MTU = 40, 100
		case "mbapp", "mbapp-mux":
			c.InnerMTU, c.MTU = 64, 200
		case "frag-p2pke":
			c.MTU = 1 << 17
		}
		return c
	}
	kinds := []string{"mem", "frag", "mbapp", "mux-string", "multi", "multi-ask", "map", "wl", "p2pke", "udp", "multi-failclose", "multi-ask-failclose"}
	if run.Thorough() {
		kinds = append(append([]string{}, stacks.Kinds...), "multi-failclose", "multi-ask-failclose")
	}
	for _, k := range kinds {
		h := 90 * time.Second
		if strings.Contains(k, "p2pke") {
			h = 1 * time.Second
		}
		scs = append(scs, scenario(cfg{stack: mk(k), receivers: 1, horizon: h}, pb))
		if k == "frag" || k == "mbapp" || k == "p2pke" || k == "mux-string" || k == "multi" || run.Thorough() {
			scs = append(scs, scenario(cfg{stack: mk(k), receivers: 0, backlog: true, horizon: h}, pb))
		}
		if run.Thorough() {
			scs = append(scs, scenario(cfg{stack: mk(k), receivers: 2, doubleClose: true, horizon: h}, pb))
		}
	}
	for _, sc := range scs {
		sc.MaxExecs = evid.Pick(run, 60000, 2000000)
	}
	explore.Main(run, scs, evid.Pick(run, 150*time.Second, 15*time.Minute))
	run.Set("preemption_bound", pb)
	run.Assume("virtual timers fire only when no thread is runnable, up to the per-stack horizon; QUIC/SSH/UDP stacks are outside the scheduler")
	// free-running rows for sshswarm / quicswarm (outside the controlled scheduler)
	if netrows.Run(run) {
		run.Assume("sshswarm and quicswarm rows run free on loopback (third-party goroutines and sockets): every listed call configuration is executed once under the runtime's own schedule; waits of 20-30 s only give up, the only timing verdict is 'has not returned long after its deadline'")
	}
	run.Finish()
}
