package main

import (
	"bytes"
	"fmt"
	"os"
	"strings"

	"go.brendoncarroll.net/p2p"
	"go.brendoncarroll.net/p2p/p/p2pmux"

	"verifmc/evid"
)

// codec abstracts one multiplexer kind over a printable channel representation.
type codec struct {
	name  string
	chans []string // channel ids rendered as strings (decimal for integers)
	frame func(ch string, x []byte) []byte
	parse func(b []byte) (ch string, body []byte, err error)
}

func cat(v p2p.IOVec) []byte { return p2p.VecBytes(nil, v) }

func u(s string) uint64 {
	var n uint64
	fmt.Sscanf(s, "%d", &n)
	return n
}

func codecs() []codec {
	ints := func(bits int) []string {
		all := []uint64{0, 1, 127, 128, 255, 256, 1<<14 - 1, 1 << 14, 1<<14 + 1, 1<<16 - 1, 1 << 16, 1<<32 - 1, 1 << 32, 1 << 63, 1<<64 - 1}
		var out []string
		for _, v := range all {
			if bits < 64 && v >= 1<<uint(bits) {
				continue
			}
			out = append(out, fmt.Sprint(v))
		}
		return out
	}
	strs := []string{"", "a", "ab", strings.Repeat("x", 127), strings.Repeat("y", 128), "\x80rest", "nul\x00inside", "\x00", "\x01a", string([]byte{0x02, 'a', 'b'})}
	return []codec{
		{"string", strs,
			func(ch string, x []byte) []byte { return cat(p2pmux.VerifStringMux(ch, p2p.IOVec{x})) },
			func(b []byte) (string, []byte, error) { return p2pmux.VerifStringDemux(b) }},
		{"varint", ints(64),
			func(ch string, x []byte) []byte { return cat(p2pmux.VerifVarintMux(u(ch), p2p.IOVec{x})) },
			func(b []byte) (string, []byte, error) {
				c, body, err := p2pmux.VerifVarintDemux(b)
				return fmt.Sprint(c), body, err
			}},
		{"uint16", ints(16),
			func(ch string, x []byte) []byte { return cat(p2pmux.VerifUint16Mux(uint16(u(ch)), p2p.IOVec{x})) },
			func(b []byte) (string, []byte, error) {
				c, body, err := p2pmux.VerifUint16Demux(b)
				return fmt.Sprint(c), body, err
			}},
		{"uint32", ints(32),
			func(ch string, x []byte) []byte { return cat(p2pmux.VerifUint32Mux(uint32(u(ch)), p2p.IOVec{x})) },
			func(b []byte) (string, []byte, error) {
				c, body, err := p2pmux.VerifUint32Demux(b)
				return fmt.Sprint(c), body, err
			}},
		{"uint64", ints(64),
			func(ch string, x []byte) []byte { return cat(p2pmux.VerifUint64Mux(u(ch), p2p.IOVec{x})) },
			func(b []byte) (string, []byte, error) {
				c, body, err := p2pmux.VerifUint64Demux(b)
				return fmt.Sprint(c), body, err
			}},
	}
}

func guard(run *evid.Run, site string, witness any, f func()) {
	defer func() {
		if r := recover(); r != nil {
			run.Violate(evid.Violation{Kind: "panic", Site: site, Detail: fmt.Sprintf("panic: %v", r), Witness: witness})
		}
	}()
	f()
}

// codecGrid enumerates channel x payload grids and short raw byte strings for every kind.
func codecGrid(run *evid.Run) {
	for _, cd := range codecs() {
		cd := cd
		var payloads [][]byte
		payloads = append(payloads, nil, []byte{})
		for _, b := range []byte{0x00, 0x7f, 0x80, 0xff} {
			payloads = append(payloads, []byte{b})
		}
		payloads = append(payloads, []byte{0x00, 0x01}, []byte{0x80, 0x01}, []byte("payload"))
		// payloads that are themselves valid frames
		payloads = append(payloads, cd.frame(cd.chans[0], []byte("in")), cd.frame(cd.chans[len(cd.chans)-1], nil))
		type pair struct {
			ch string
			x  []byte
		}
		frames := map[string]pair{}
		for _, ch := range cd.chans {
			for _, x := range payloads {
				ch, x := ch, x
				w := map[string]any{"kind": cd.name, "channel": ch, "payload": evid.Hex(x)}
				guard(run, cd.name+"mux", w, func() {
					run.Add("evaluations", 1)
					fr := cd.frame(ch, x)
					gotCh, gotX, err := cd.parse(fr)
					if err != nil || gotCh != ch || !bytes.Equal(gotX, x) || (len(gotX) == 0) != (len(x) == 0) {
						run.Violate(evid.Violation{Kind: "roundtrip", Site: cd.name + "mux", Detail: fmt.Sprintf("unframe(frame(%q,%x)) = (%q,%x,%v)", ch, x, gotCh, gotX, err), Witness: w})
						return
					}
					key := string(fr)
					if old, ok := frames[key]; ok && (old.ch != ch || !bytes.Equal(old.x, x)) {
						run.Violate(evid.Violation{Kind: "not-injective", Site: cd.name + "mux", Detail: fmt.Sprintf("(%q,%x) and (%q,%x) produce the same frame %x", old.ch, old.x, ch, x, fr), Witness: w})
					}
					frames[key] = pair{ch, x}
					// prefix-freeness of the channel header: appending bytes never changes the channel
					for _, suffix := range [][]byte{{0x00}, {0xff}, {0x80, 0x80, 0x01}, []byte("more")} {
						gc, gx, err := cd.parse(append(append([]byte{}, fr...), suffix...))
						if err != nil || gc != ch || !bytes.Equal(gx, append(append([]byte{}, x...), suffix...)) {
							run.Violate(evid.Violation{Kind: "not-prefix-free", Site: cd.name + "mux", Detail: fmt.Sprintf("frame(%q,%x)+%x parses as (%q,%x,%v)", ch, x, suffix, gc, gx, err), Witness: w})
							return
						}
					}
				})
			}
		}
		run.Add("states", len(frames))
		// all short byte strings: demux either errors or re-frames to the same bytes
		alpha := []byte{0x00, 0x01, 0x02, 0x7f, 0x80, 0xff}
		var raws [][]byte
		raws = append(raws, []byte{})
		var rec func(prefix []byte, n int)
		rec = func(prefix []byte, n int) {
			if n == 0 {
				return
			}
			for _, a := range alpha {
				p := append(append([]byte{}, prefix...), a)
				raws = append(raws, p)
				rec(p, n-1)
			}
		}
		rec(nil, 4)
		// long varint prefixes (lengths 1..10 of continuation bytes) with short tails
		for n := 1; n <= 10; n++ {
			for _, last := range []byte{0x00, 0x01, 0x7f, 0x80} {
				p := bytes.Repeat([]byte{0xff}, n-1)
				p = append(p, last)
				raws = append(raws, p, append(append([]byte{}, p...), 'a'), append(append([]byte{}, p...), 'a', 'b', 'c'))
			}
		}
		for _, raw := range raws {
			raw := raw
			w := map[string]any{"kind": cd.name, "raw": evid.Hex(raw)}
			guard(run, cd.name+"mux", w, func() {
				run.Add("evaluations", 1)
				run.Add("transitions", 1)
				ch, body, err := cd.parse(raw)
				if err != nil {
					run.Outcome(cd.name + ": raw rejected")
					return
				}
				run.Outcome(cd.name + ": raw accepted")
				if back := cd.frame(ch, body); !bytes.Equal(back, raw) {
					// a non-canonical spelling (over-long varint) that still parses: the statement
					// only constrains frame(), so this is counted, not reported
					run.Outcome(cd.name + ": raw accepted although not canonical")
				}
			})
		}
	}
}

func isWorker() bool { return os.Getenv("VERIF_SHARD") != "" }
