// C15: multiplexed channels are isolated and framing is unambiguous.
// Part 1: exhaustive codec grid (every mux kind). Part 2: controlled-scheduler
// exploration of dispatch with every non-empty subset of three channels open, a remote
// mux telling/asking on all three and a raw peer injecting invalid frames.
package main

import (
	"context"
	"fmt"
	"sort"
	"strings"
	"time"

	"go.brendoncarroll.net/p2p"
	"go.brendoncarroll.net/p2p/p/p2pmux"
	"go.brendoncarroll.net/p2p/s/memswarm"

	"verifmc/evid"
	"verifmc/explore"
	"verifmc/hx"
	"verifmc/vrt"
)

type seen struct {
	Chan    int // index of the channel whose swarm saw it
	Kind    string
	Payload string
}

type ledger struct {
	cell   hx.Cell
	seen   []seen
	askRes map[string]string
	done   int
}

func led(x *vrt.Exec) *ledger { return x.Data.(*ledger) }

// muxKit hides the channel type of one mux kind.
type muxKit struct {
	name string
	// open returns the swarms for the three channels (nil where mask bit is 0)
	open func(s p2p.AskSwarm[memswarm.Addr], mask int) [3]p2p.AskSwarm[memswarm.Addr]
}

func kit[C comparable](name string, mk func(p2p.AskSwarm[memswarm.Addr]) p2pmux.AskMux[memswarm.Addr, C], chans [3]C) muxKit {
	return muxKit{name: name, open: func(s p2p.AskSwarm[memswarm.Addr], mask int) (out [3]p2p.AskSwarm[memswarm.Addr]) {
		m := mk(s)
		for i := 0; i < 3; i++ {
			if mask&(1<<i) != 0 {
				out[i] = m.Open(chans[i])
			}
		}
		return out
	}}
}

func kits() []muxKit {
	return []muxKit{
		kit[string]("string", func(s p2p.AskSwarm[memswarm.Addr]) p2pmux.AskMux[memswarm.Addr, string] {
			return p2pmux.NewStringAskMux[memswarm.Addr](s)
		}, [3]string{"", "a", "ab"}),
		kit[uint64]("varint", func(s p2p.AskSwarm[memswarm.Addr]) p2pmux.AskMux[memswarm.Addr, uint64] {
			return p2pmux.NewVarintAskMux[memswarm.Addr](s)
		}, [3]uint64{0, 1, 300}),
		kit[uint16]("uint16", func(s p2p.AskSwarm[memswarm.Addr]) p2pmux.AskMux[memswarm.Addr, uint16] {
			return p2pmux.NewUint16AskMux[memswarm.Addr](s)
		}, [3]uint16{0, 1, 0x0100}),
		kit[uint32]("uint32", func(s p2p.AskSwarm[memswarm.Addr]) p2pmux.AskMux[memswarm.Addr, uint32] {
			return p2pmux.NewUint32AskMux[memswarm.Addr](s)
		}, [3]uint32{0, 1, 0x01000000}),
		kit[uint64]("uint64", func(s p2p.AskSwarm[memswarm.Addr]) p2pmux.AskMux[memswarm.Addr, uint64] {
			return p2pmux.NewUint64AskMux[memswarm.Addr](s)
		}, [3]uint64{0, 1, 1 << 63}),
	}
}

// invalid frames per kind: too short for the header / length larger than the rest
func invalidFrames(kind string) [][]byte {
	switch kind {
	case "string":
		return [][]byte{{}, {0x05, 'a'}, {0x80}}
	case "varint":
		return [][]byte{{}, {0x80}, {0xff, 0xff}}
	case "uint16":
		return [][]byte{{}, {0x00}}
	case "uint32":
		return [][]byte{{}, {0x00, 0x00, 0x00}}
	default:
		return [][]byte{{}, {0, 0, 0, 0, 0, 0, 0}}
	}
}

type dcfg struct {
	kit  muxKit
	mask int
	ask  bool // remote uses Ask instead of Tell
	raw  bool // raw peer injects invalid frames
	// slots of the transport's receive queue (0 = 16). With a single slot every message
	// reuses the buffer of the previous one, as a datagram socket's read buffer does.
	queueLen int
}

func (c dcfg) name() string {
	if c.queueLen > 0 {
		return fmt.Sprintf("dispatch-%s-open%03b-ask%v-raw%v-queue%d", c.kit.name, c.mask, c.ask, c.raw, c.queueLen)
	}
	return fmt.Sprintf("dispatch-%s-open%03b-ask%v-raw%v", c.kit.name, c.mask, c.ask, c.raw)
}

func scenario(c dcfg, pb int) *explore.Scenario {
	sc := &explore.Scenario{Name: c.name(), PB: pb}
	sc.Setup = func(x *vrt.Exec) {
		x.Data = &ledger{askRes: map[string]string{}}
		x.MaxSteps = 8000
	}
	sc.Body = func(x *vrt.Exec) {
		l := led(x)
		ql := c.queueLen
		if ql == 0 {
			ql = 16
		}
		realm := memswarm.NewRealm(memswarm.WithQueueLen(ql))
		local, remote, raw := realm.NewSwarm(), realm.NewSwarm(), realm.NewSwarm()
		locals := c.kit.open(local, c.mask)
		remotes := c.kit.open(remote, 7)
		bg := context.Background()
		ctx, stop := hx.WithCancel(bg)
		for i := 0; i < 3; i++ {
			i := i
			if locals[i] == nil {
				continue
			}
			vrt.Go(fmt.Sprintf("recv%d", i), func() {
				for {
					if err := locals[i].Receive(ctx, func(m p2p.Message[memswarm.Addr]) {
						l.cell.Touch()
						l.seen = append(l.seen, seen{Chan: i, Kind: "tell", Payload: string(m.Payload)})
					}); err != nil {
						return
					}
				}
			})
			vrt.Go(fmt.Sprintf("serve%d", i), func() {
				for {
					if err := locals[i].ServeAsk(ctx, func(_ context.Context, resp []byte, m p2p.Message[memswarm.Addr]) int {
						l.cell.Touch()
						l.seen = append(l.seen, seen{Chan: i, Kind: "ask", Payload: string(m.Payload)})
						return copy(resp, fmt.Sprintf("r%d", i))
					}); err != nil {
						return
					}
				}
			})
		}
		x.Settle()
		senders := 1
		vrt.Go("remote", func() {
			// one remote thread uses the three channels in turn: isolation is about dispatch,
			// the concurrency that matters is remote vs raw vs the local dispatch threads
			// the payload is a two-segment vector built, as callers do, by appending to one
			// shared base vector with spare capacity: a layer that frames in place inside the
			// caller's backing array corrupts what the next channel sends
			base := append(make(p2p.IOVec, 0, 6), []byte("for-channel-"))
			for i := 0; i < 3; i++ {
				vec := append(base, []byte(fmt.Sprint(i)))
				if c.ask {
					resp := make([]byte, 8)
					n, err := remotes[i].Ask(bg, resp, local.LocalAddr(), vec)
					l.cell.Touch()
					if err != nil {
						l.askRes[fmt.Sprint(i)] = "err"
					} else {
						l.askRes[fmt.Sprint(i)] = string(resp[:n])
					}
				} else {
					remotes[i].Tell(bg, local.LocalAddr(), vec)
					if c.queueLen > 0 {
						// a full queue drops: let each message be consumed before the next reuses the slot
						want := i + 1
						hx.WaitUntil(&l.cell, "remote: previous message consumed", func() bool { return len(l.seen) >= want })
					}
				}
			}
			l.cell.Touch()
			l.done++
		})
		if c.raw {
			senders++
			vrt.Go("raw", func() {
				for k, fr := range invalidFrames(c.kit.name) {
					if c.ask {
						resp := make([]byte, 8)
						n, err := raw.Ask(bg, resp, local.LocalAddr(), p2p.IOVec{fr})
						l.cell.Touch()
						if err == nil {
							l.askRes[fmt.Sprintf("raw%d", k)] = "ok:" + string(resp[:n])
						}
					} else {
						raw.Tell(bg, local.LocalAddr(), p2p.IOVec{fr})
					}
				}
				l.cell.Touch()
				l.done++
			})
		}
		vrt.Go("finalizer", func() {
			hx.WaitUntil(&l.cell, "finalizer", func() bool { return l.done == senders })
			hx.WaitQuiescent(&l.cell)
			x.NoBranch = true
			stop()
			local.Close()
			remote.Close()
			raw.Close()
		})
	}
	sc.Check = func(x *vrt.Exec) []explore.Finding {
		l := led(x)
		site := "p2pmux/" + c.kit.name
		var fs []explore.Finding
		add := func(kind, detail string) { fs = append(fs, explore.Finding{Kind: kind, Site: site, Detail: detail}) }
		if x.HorizonHit {
			add("step-horizon", "execution did not quiesce")
			return fs
		}
		count := map[string]int{}
		for _, s := range l.seen {
			want := fmt.Sprintf("for-channel-%d", s.Chan)
			switch {
			case s.Payload == want:
				count[want]++
			case strings.HasPrefix(s.Payload, "for-channel-"):
				add("cross-channel-delivery", fmt.Sprintf("swarm of channel %d saw %q", s.Chan, s.Payload))
			default:
				add("invalid-frame-delivered", fmt.Sprintf("swarm of channel %d saw a %s with payload %x that nobody sent on that channel", s.Chan, s.Kind, s.Payload))
			}
		}
		for k, n := range count {
			if n > 1 {
				add("duplicate-delivery", fmt.Sprintf("%q delivered %d times", k, n))
			}
		}
		if c.ask {
			for i := 0; i < 3; i++ {
				res := l.askRes[fmt.Sprint(i)]
				open := c.mask&(1<<i) != 0
				if open && res != fmt.Sprintf("r%d", i) && res != "err" {
					add("ask-answered-by-wrong-channel", fmt.Sprintf("ask on channel %d got %q", i, res))
				}
				if !open && res != "err" {
					add("ask-on-closed-channel-succeeds", fmt.Sprintf("ask on channel %d (not open at the destination) returned %q", i, res))
				}
			}
			var ks []string
			for k := range l.askRes {
				if strings.HasPrefix(k, "raw") {
					ks = append(ks, k)
				}
			}
			sort.Strings(ks)
			for _, k := range ks {
				add("invalid-ask-frame-answered", fmt.Sprintf("an ask carrying an invalid frame was answered with %q", l.askRes[k]))
			}
		}
		return fs
	}
	sc.Outcome = func(x *vrt.Exec) string {
		l := led(x)
		var parts []string
		for _, s := range l.seen {
			parts = append(parts, fmt.Sprintf("%d<-%s", s.Chan, s.Kind))
		}
		sort.Strings(parts)
		return strings.Join(parts, " ")
	}
	return sc
}

func main() {
	run := evid.Start("C15", "model_checking")
	if run.ReplayFile() == "" && !isWorker() {
		codecGrid(run)
	}
	pb := evid.Pick(run, 0, 1)
	var scs []*explore.Scenario
	ks := kits()
	for ki, k := range ks {
		masks := []int{1, 6, 7}
		if run.Thorough() {
			masks = []int{1, 2, 3, 4, 5, 6, 7}
		}
		for _, mask := range masks {
			for _, ask := range []bool{false, true} {
				if !run.Thorough() && ki > 1 && mask != 6 {
					continue
				}
				sc := scenario(dcfg{kit: k, mask: mask, ask: ask, raw: true}, pb)
				sc.MaxExecs = evid.Pick(run, 20000, 400000)
				scs = append(scs, sc)
			}
		}
	}
	// one receive buffer reused for every message (a channel identifier must not be remembered
	// by reference into it)
	for _, k := range ks {
		sc := scenario(dcfg{kit: k, mask: 7, ask: false, raw: false, queueLen: 1}, pb)
		sc.MaxExecs = evid.Pick(run, 20000, 400000)
		scs = append(scs, sc)
	}
	codecStates := run.Get("states")
	codecTrans := run.Get("transitions")
	explore.Main(run, scs, evid.Pick(run, 90*time.Second, 10*time.Minute))
	run.Set("codec_frames", codecStates)
	run.Set("states", run.Get("states")+codecStates)
	run.Set("transitions", run.Get("transitions")+codecTrans)
	run.Set("preemption_bound", pb)
	run.Assume("channel identifiers and payloads beyond the enumerated grids")
	run.Finish()
}
