// c04net: free-running rows of C04 (sshswarm and quicswarm): an attacker that holds only
// its own key runs every ordering of authentication steps from a small alphabet against
// the real swarm on loopback; whatever the victim swarm then delivers must be attributed
// to the attacker's own key.
package main

import (
	"context"
	"crypto/ed25519"
	"crypto/rand"
	"flag"
	"fmt"
	"io"
	"log"
	"net"
	"strings"
	"time"

	"crypto/tls"
	cx509 "crypto/x509"
	"math/big"

	"github.com/quic-go/quic-go"
	"golang.org/x/crypto/ssh"

	"go.brendoncarroll.net/p2p"
	x509lib "go.brendoncarroll.net/p2p/f/x509"
	"go.brendoncarroll.net/p2p/s/quicswarm"
	"go.brendoncarroll.net/p2p/s/sshswarm"
	"go.brendoncarroll.net/p2p/s/swarmutil"
	"go.brendoncarroll.net/p2p/s/udpswarm"

	"verifmc/netrows"
)

func sshKey(seed byte) (ssh.Signer, ed25519.PrivateKey) {
	s := make([]byte, 32)
	s[0] = seed
	k := ed25519.NewKeyFromSeed(s)
	signer, err := ssh.NewSignerFromSigner(k)
	if err != nil {
		panic(err)
	}
	return signer, k
}

// stepSigner is one authentication step of the attacker.
type stepSigner struct {
	name string
	pub  ssh.PublicKey
	real ssh.Signer // the attacker's own key
	bad  bool
	// wrongFormat labels the signature with another algorithm: the server refuses the
	// attempt but keeps the connection (a "soft" authentication failure)
	wrongFormat bool
}

func (s stepSigner) PublicKey() ssh.PublicKey { return s.pub }
func (s stepSigner) Sign(r io.Reader, data []byte) (*ssh.Signature, error) {
	sig, err := s.real.Sign(r, data)
	if err != nil {
		return nil, err
	}
	if s.bad {
		sig.Blob = append([]byte{}, sig.Blob...)
		sig.Blob[0] ^= 0xff
	}
	sig.Format = s.pub.Type()
	if s.wrongFormat {
		sig.Format = ssh.KeyAlgoECDSA256
	}
	return sig, nil
}

func sshRows(em *netrows.Emitter, maxLen int) {
	victimSigner, _ := sshKey(1)   // a third party V whose identity the attacker wants
	attackerSigner, _ := sshKey(2) // E
	serverSigner, _ := sshKey(3)   // A, the swarm under test
	fpE := ssh.FingerprintSHA256(attackerSigner.PublicKey())
	fpV := ssh.FingerprintSHA256(victimSigner.PublicKey())
	alphabet := []stepSigner{
		{name: "E-valid", pub: attackerSigner.PublicKey(), real: attackerSigner},
		{name: "E-bad-signature", pub: attackerSigner.PublicKey(), real: attackerSigner, bad: true},
		{name: "V-pubkey-with-bad-signature", pub: victimSigner.PublicKey(), real: attackerSigner, bad: true},
		{name: "E-soft-failure", pub: attackerSigner.PublicKey(), real: attackerSigner, wrongFormat: true},
		{name: "V-pubkey-soft-failure", pub: victimSigner.PublicKey(), real: attackerSigner, wrongFormat: true},
	}
	var lists [][]int
	var rec func(p []int)
	rec = func(p []int) {
		if len(p) > 0 {
			lists = append(lists, append([]int{}, p...))
		}
		if len(p) == maxLen {
			return
		}
		for i := range alphabet {
			rec(append(p, i))
		}
	}
	rec(nil)
	evals, connected := 0, 0
	for _, lst := range lists {
		var names []string
		var signers []ssh.Signer
		for _, i := range lst {
			names = append(names, alphabet[i].name)
			signers = append(signers, alphabet[i])
		}
		evals++
		func() {
			a, err := sshswarm.New("127.0.0.1:0", serverSigner)
			if err != nil {
				em.Note("cannot listen: " + err.Error())
				return
			}
			defer a.Close()
			addr := a.LocalAddrs()[0]
			type got struct {
				src     sshswarm.Addr
				lookFP  string
				lookErr string
				payload string
			}
			ch := make(chan got, 4)
			ctx, cf := context.WithTimeout(context.Background(), 3*time.Second)
			defer cf()
			go func() {
				for {
					if err := a.Receive(ctx, func(m p2p.Message[sshswarm.Addr]) {
						g := got{src: m.Src, payload: string(m.Payload)}
						func() {
							defer func() {
								if r := recover(); r != nil {
									g.lookErr = fmt.Sprint(r)
								}
							}()
							k := p2p.LookupPublicKeyInHandler[sshswarm.Addr, sshswarm.PublicKey](a, m.Src)
							g.lookFP = ssh.FingerprintSHA256(k)
						}()
						ch <- g
					}); err != nil {
						return
					}
				}
			}()
			conn, err := net.DialTimeout("tcp", fmt.Sprintf("%s:%d", addr.IP, addr.Port), 2*time.Second)
			if err != nil {
				em.Note("dial failed: " + err.Error())
				return
			}
			defer conn.Close()
			cfg := &ssh.ClientConfig{
				User:            "x",
				Auth:            []ssh.AuthMethod{ssh.PublicKeys(signers...)},
				HostKeyCallback: ssh.InsecureIgnoreHostKey(),
				Timeout:         2 * time.Second,
			}
			sconn, _, _, err := ssh.NewClientConn(conn, conn.RemoteAddr().String(), cfg)
			if err != nil {
				return // authentication failed: nothing can be attributed
			}
			defer sconn.Close()
			connected++
			if _, _, err := sconn.SendRequest("", false, []byte("from-the-attacker")); err != nil {
				return
			}
			select {
			case g := <-ch:
				w := map[string]any{"auth_steps": names, "attributed_fingerprint": g.src.Fingerprint, "attacker_fingerprint": fpE, "victim_fingerprint": fpV}
				if g.src.Fingerprint != fpE {
					em.Violation("message-attributed-to-key-sender-never-proved", "sshswarm", fmt.Sprintf("auth steps %v: the attacker (holding only E's key) is attributed fingerprint %s (victim V's: %v)", names, g.src.Fingerprint, g.src.Fingerprint == fpV), w)
				}
				if g.lookErr != "" {
					em.Violation("lookup-in-handler-failed", "sshswarm", fmt.Sprintf("auth steps %v: LookupPublicKey inside the handler failed: %s", names, g.lookErr), w)
				} else if g.lookFP != fpE {
					em.Violation("lookup-returns-key-sender-never-proved", "sshswarm", fmt.Sprintf("auth steps %v: LookupPublicKey inside the handler returns a key with fingerprint %s, not the attacker's", names, g.lookFP), w)
				}
			case <-ctx.Done():
			}
		}()
	}
	// an honest node dials identity V at the address where E listens: nothing may reach E
	evals++
	func() {
		a, err := sshswarm.New("127.0.0.1:0", serverSigner)
		if err != nil {
			return
		}
		defer a.Close()
		e, err := sshswarm.New("127.0.0.1:0", attackerSigner)
		if err != nil {
			return
		}
		defer e.Close()
		ch := make(chan string, 2)
		ctx, cf := context.WithTimeout(context.Background(), 2*time.Second)
		defer cf()
		go e.Receive(ctx, func(m p2p.Message[sshswarm.Addr]) { ch <- string(m.Payload) })
		go e.ServeAsk(ctx, func(_ context.Context, resp []byte, m p2p.Message[sshswarm.Addr]) int {
			ch <- string(m.Payload)
			return 0
		})
		dst := e.LocalAddrs()[0]
		dst.Fingerprint = fpV
		tctx, tcf := context.WithTimeout(context.Background(), time.Second)
		defer tcf()
		terr := a.Tell(tctx, dst, p2p.IOVec{[]byte("secret-for-V")})
		_, aerr := a.Ask(tctx, make([]byte, 8), dst, p2p.IOVec{[]byte("secret-for-V")})
		if terr == nil || aerr == nil {
			em.Violation("wrong-identity-dial-succeeds", "sshswarm", fmt.Sprintf("Tell/Ask addressed to fingerprint V at E's address returned (tell err=%v, ask err=%v)", terr, aerr), nil)
		}
		select {
		case p := <-ch:
			em.Violation("payload-delivered-to-wrong-identity", "sshswarm", fmt.Sprintf("E (without V's key) received %q addressed to V", p), nil)
		case <-ctx.Done():
		}
	}()
	em.Stats(map[string]int{"evaluations": evals, "ssh_auth_sequences": evals, "ssh_sequences_that_connected": connected, "distinct_nontrivial": connected})
	em.Sample(map[string]any{"stack": "sshswarm", "auth_steps": []string{"E-soft-failure", "V-pubkey-soft-failure", "E-valid"}})
}

func x509Key(i int) (x509lib.PrivateKey, ed25519.PrivateKey) {
	seed := make([]byte, 32)
	seed[5] = byte(i + 1)
	k := ed25519.NewKeyFromSeed(seed)
	algo, _ := x509lib.SignerFromStandard(k)
	return x509lib.PrivateKey{Algorithm: algo, Data: seed}, k
}

// quicRows: an attacker holding only E's key presents E's certificate, the victim's
// certificate with its own key, or a self-made certificate over the victim's public key;
// and honest dials to a wrong identity must fail before anything is sent.
func quicRows(em *netrows.Emitter) {
	privA, _ := x509Key(0)
	privE, edE := x509Key(1)
	_, edV := x509Key(2)
	pubOf := func(p x509lib.PrivateKey) x509lib.PublicKey {
		pub, err := x509lib.DefaultRegistry().PublicFromPrivate(&p)
		if err != nil {
			panic(err)
		}
		return pub
	}
	idE := quicswarm.DefaultFingerprinter(pubOf(privE))
	privV, _ := x509Key(2)
	idV := quicswarm.DefaultFingerprinter(pubOf(privV))
	victimCert := swarmutil.GenerateSelfSigned(edV)
	forged := func() tls.Certificate {
		tmpl := *victimCert.Leaf
		tmpl.SerialNumber = big.NewInt(77)
		der, err := cx509.CreateCertificate(rand.Reader, &tmpl, &tmpl, edV.Public(), edE)
		if err != nil {
			panic(err)
		}
		return tls.Certificate{Certificate: [][]byte{der}, PrivateKey: edE}
	}
	configs := []struct {
		name string
		cert tls.Certificate
	}{
		{"own-certificate-and-key", swarmutil.GenerateSelfSigned(edE)},
		{"victims-certificate-with-own-key", tls.Certificate{Certificate: victimCert.Certificate, PrivateKey: edE}},
		{"self-made-certificate-over-victims-public-key", forged()},
	}
	evals, connected := 0, 0
	for _, c := range configs {
		evals++
		func() {
			a, err := quicswarm.NewOnUDP("127.0.0.1:0", privA)
			if err != nil {
				em.Note("quic listen failed: " + err.Error())
				return
			}
			defer a.Close()
			type got struct {
				id      p2p.PeerID
				lookID  p2p.PeerID
				lookErr string
			}
			ch := make(chan got, 2)
			ctx, cf := context.WithTimeout(context.Background(), 3*time.Second)
			defer cf()
			go func() {
				for {
					if err := a.Receive(ctx, func(m p2p.Message[quicswarm.Addr[udpswarm.Addr]]) {
						g := got{id: m.Src.ID}
						func() {
							defer func() {
								if r := recover(); r != nil {
									g.lookErr = fmt.Sprint(r)
								}
							}()
							k := p2p.LookupPublicKeyInHandler[quicswarm.Addr[udpswarm.Addr], quicswarm.PublicKey](a, m.Src)
							g.lookID = quicswarm.DefaultFingerprinter(k)
						}()
						ch <- g
					}); err != nil {
						return
					}
				}
			}()
			la := a.LocalAddrs()[0].Addr
			dctx, dcf := context.WithTimeout(context.Background(), 2*time.Second)
			defer dcf()
			conn, err := quic.DialAddr(dctx, fmt.Sprintf("127.0.0.1:%d", la.Port), &tls.Config{Certificates: []tls.Certificate{c.cert}, InsecureSkipVerify: true, NextProtos: []string{"p2p"}}, &quic.Config{EnableDatagrams: true})
			if err != nil {
				return // handshake refused: nothing to attribute
			}
			defer conn.CloseWithError(0, "")
			st, err := conn.OpenUniStream()
			if err != nil {
				return
			}
			st.Write([]byte("from-the-attacker"))
			st.Close()
			select {
			case g := <-ch:
				connected++
				w := map[string]any{"tls_config": c.name}
				if g.id != idE {
					em.Violation("message-attributed-to-key-sender-never-proved", "quicswarm", fmt.Sprintf("TLS config %s: the attacker is attributed identity %v (victim's: %v)", c.name, g.id, g.id == idV), w)
				}
				if g.lookErr == "" && g.lookID != idE {
					em.Violation("lookup-returns-key-sender-never-proved", "quicswarm", fmt.Sprintf("TLS config %s: LookupPublicKey in the handler returns identity %v", c.name, g.lookID), w)
				}
			case <-ctx.Done():
			}
		}()
	}
	// an honest node dials identity V at the address where E listens: nothing may reach E
	evals++
	func() {
		a, err := quicswarm.NewOnUDP("127.0.0.1:0", privA)
		if err != nil {
			return
		}
		defer a.Close()
		e, err := quicswarm.NewOnUDP("127.0.0.1:0", privE)
		if err != nil {
			return
		}
		defer e.Close()
		ch := make(chan string, 2)
		ctx, cf := context.WithTimeout(context.Background(), 2*time.Second)
		defer cf()
		go func() {
			e.Receive(ctx, func(m p2p.Message[quicswarm.Addr[udpswarm.Addr]]) { ch <- string(m.Payload) })
		}()
		go func() {
			e.ServeAsk(ctx, func(_ context.Context, resp []byte, m p2p.Message[quicswarm.Addr[udpswarm.Addr]]) int {
				ch <- string(m.Payload)
				return 0
			})
		}()
		dst := quicswarm.Addr[udpswarm.Addr]{ID: idV, Addr: e.LocalAddrs()[0].Addr}
		tctx, tcf := context.WithTimeout(context.Background(), time.Second)
		defer tcf()
		terr := a.Tell(tctx, dst, p2p.IOVec{[]byte("secret-for-V")})
		_, aerr := a.Ask(tctx, make([]byte, 8), dst, p2p.IOVec{[]byte("secret-for-V")})
		if terr == nil || aerr == nil {
			em.Violation("wrong-identity-dial-succeeds", "quicswarm", fmt.Sprintf("Tell/Ask addressed to identity V at E's address returned (tell err=%v, ask err=%v)", terr, aerr), nil)
		}
		select {
		case p := <-ch:
			em.Violation("payload-delivered-to-wrong-identity", "quicswarm", fmt.Sprintf("E (without V's key) received %q addressed to V", p), nil)
		case <-ctx.Done():
		}
	}()
	em.Stats(map[string]int{"evaluations": evals, "quic_tls_configs": len(configs), "quic_configs_that_delivered": connected, "distinct_nontrivial": connected + 1})
	em.Sample(map[string]any{"stack": "quicswarm", "tls_config": "self-made-certificate-over-victims-public-key"})
}

func main() {
	flag.Parse() // -tier is registered by package evid (imported through netrows)
	tierV := "quick"
	if f := flag.Lookup("tier"); f != nil && f.Value.String() != "" {
		tierV = f.Value.String()
	}
	tier := &tierV
	log.SetOutput(io.Discard)
	_ = rand.Reader
	_ = strings.Join
	em := netrows.NewEmitter()
	maxLen := 3
	if *tier == "thorough" {
		maxLen = 4
	}
	em.Watch("sshswarm", "the authentication-sequence rows", 6*time.Minute)
	sshRows(em, maxLen)
	em.Watch("quicswarm", "the TLS-configuration rows", 3*time.Minute)
	quicRows(em)
	em.Watch("", "", 0)
}
