// c13net: free-running rows of C13 for sshswarm and quicswarm (outside the controlled
// scheduler): a Receive, ServeAsk or Ask whose context is cancelled (before the call, or
// while it is blocked / while the remote handler is busy) must return with the context's
// error; and messages told while a competing receiver is being cancelled and restarted
// must each reach exactly one callback. Waits of 20 s only give up; the timing verdict is
// "has not returned 20 s after the cancellation".
package main

import (
	"context"
	"errors"
	"flag"
	"fmt"
	"io"
	"log"
	"strings"
	"sync"
	"time"

	"go.brendoncarroll.net/p2p"

	"verifmc/netrows"
	"verifmc/netstacks"
	"verifmc/stacks"
)

const slack = 20 * time.Second

func isCancel(err error) bool {
	return err != nil && (errors.Is(err, context.Canceled) || strings.Contains(err.Error(), context.Canceled.Error()))
}

// await waits for a call's result; ok=false if it did not come within slack.
func await(ch chan error) (error, bool) {
	select {
	case err := <-ch:
		return err, true
	case <-time.After(slack):
		return nil, false
	}
}

func rows(em *netrows.Emitter, kind string) (cases int) {
	fail := func(k, detail string, w any) { em.Violation(k, kind, kind+": "+detail, w) }
	st, err := netstacks.Build(kind, 2)
	if err != nil {
		em.Note(kind + ": cannot build: " + err.Error())
		return 0
	}
	defer func() {
		for _, n := range st.Nodes {
			n.Close()
		}
	}()
	target, peer := st.Nodes[0], st.Nodes[1]
	bg := context.Background()
	type callFn func(ctx context.Context) error
	calls := map[string]callFn{
		"Receive": func(ctx context.Context) error { return target.Receive(ctx, func(stacks.Msg) {}) },
		"ServeAsk": func(ctx context.Context) error {
			return target.ServeAsk(ctx, func(context.Context, []byte, stacks.Msg) int { return 0 })
		},
	}
	for _, name := range []string{"Receive", "ServeAsk"} {
		for _, pre := range []bool{true, false} {
			cases++
			w := map[string]any{"stack": kind, "call": name, "cancelled_before_call": pre}
			ctx, cf := context.WithCancel(bg)
			if pre {
				cf()
			}
			ch := make(chan error, 1)
			go func() { ch <- calls[name](ctx) }()
			if !pre {
				time.Sleep(30 * time.Millisecond)
				cf()
			}
			err, ok := await(ch)
			cf()
			switch {
			case !ok:
				fail("cancel-ignored", fmt.Sprintf("%s (context cancelled, before the call: %v) had not returned %v later", name, pre, slack), w)
			case err == nil:
				fail("receive-ok-without-message", fmt.Sprintf("%s with a cancelled context returned nil although nothing was sent", name), w)
			case !isCancel(err):
				fail("wrong-cancel-error", fmt.Sprintf("%s returned %q, want the context's error", name, err), w)
			}
		}
	}
	// Ask: cancelled before the call / while the remote handler is busy
	hold := make(chan struct{})
	srvCtx, srvCancel := context.WithCancel(bg)
	defer srvCancel()
	var inHandler sync.WaitGroup
	started := make(chan struct{}, 8)
	go func() {
		for target.ServeAsk(srvCtx, func(_ context.Context, resp []byte, m stacks.Msg) int {
			inHandler.Add(1)
			defer inHandler.Done()
			if string(m.Payload) == "slow" {
				started <- struct{}{}
				<-hold
			}
			return copy(resp, "ok")
		}) == nil {
		}
	}()
	// a first ask establishes the connection so that the cancelled one is really in flight
	{
		ctx, cf := context.WithTimeout(bg, slack)
		_, err := peer.Ask(ctx, make([]byte, 8), 0, p2p.IOVec{[]byte("warm")})
		cf()
		if err != nil {
			em.Note(fmt.Sprintf("%s: warm-up ask failed (%v)", kind, err))
		}
	}
	for _, pre := range []bool{true, false} {
		cases++
		w := map[string]any{"stack": kind, "call": "Ask", "cancelled_before_call": pre, "handler": "busy"}
		ctx, cf := context.WithCancel(bg)
		if pre {
			cf()
		}
		ch := make(chan error, 1)
		go func() {
			_, err := peer.Ask(ctx, make([]byte, 8), 0, p2p.IOVec{[]byte("slow")})
			ch <- err
		}()
		if !pre {
			select {
			case <-started:
			case <-time.After(slack):
				em.Note(kind + ": the slow ask never reached its handler")
			}
			cf()
		}
		err, ok := await(ch)
		cf()
		switch {
		case !ok:
			fail("cancel-ignored", fmt.Sprintf("Ask (context cancelled, before the call: %v; handler busy) had not returned %v later", pre, slack), w)
		case err == nil:
			fail("ask-success-after-cancel", "Ask returned success although its context was cancelled while the handler had not answered", w)
		case !isCancel(err):
			fail("wrong-cancel-error", fmt.Sprintf("Ask returned %q, want the context's error", err), w)
		}
	}
	close(hold)
	// exactly-once next to a receiver that is cancelled and restarted all the time
	cases++
	const total = 30
	var mu sync.Mutex
	count := map[string]int{}
	stop := make(chan struct{})
	liveCtx, liveCancel := context.WithCancel(bg)
	var wg sync.WaitGroup
	wg.Add(2)
	go func() {
		defer wg.Done()
		for target.Receive(liveCtx, func(m stacks.Msg) { mu.Lock(); count[string(m.Payload)]++; mu.Unlock() }) == nil {
		}
	}()
	go func() {
		defer wg.Done()
		for {
			select {
			case <-stop:
				return
			default:
			}
			ctx, cf := context.WithCancel(bg)
			go func() { time.Sleep(time.Millisecond); cf() }()
			target.Receive(ctx, func(m stacks.Msg) { mu.Lock(); count[string(m.Payload)]++; mu.Unlock() })
			cf()
		}
	}()
	failed := 0
	for i := 0; i < total; i++ {
		ctx, cf := context.WithTimeout(bg, slack)
		if err := peer.Tell(ctx, 0, p2p.IOVec{[]byte(fmt.Sprintf("once-%02d", i))}); err != nil {
			failed++
		}
		cf()
	}
	deadline := time.Now().Add(slack)
	for {
		mu.Lock()
		n := len(count)
		mu.Unlock()
		if n >= total-failed || time.Now().After(deadline) {
			break
		}
		time.Sleep(20 * time.Millisecond)
	}
	close(stop)
	liveCancel()
	wg.Wait()
	w := map[string]any{"stack": kind, "messages": total, "tell_errors": failed}
	mu.Lock()
	for p, c := range count {
		if c > 1 {
			fail("delivered-twice", fmt.Sprintf("message %q reached %d callbacks", p, c), w)
		}
	}
	if len(count) < total-failed {
		fail("message-lost-next-to-cancelled-receiver", fmt.Sprintf("%d of %d successfully told messages reached a callback while a competing receiver was cancelled and restarted (a live receiver was waiting all the time)", len(count), total-failed), w)
	}
	mu.Unlock()
	inHandler.Wait()
	return cases
}

func main() {
	flag.Parse() // -tier is registered by package evid (imported through netrows)
	log.SetOutput(io.Discard)
	em := netrows.NewEmitter()
	total := 0
	for _, k := range netstacks.Kinds {
		em.Watch(k, "the rows of this stack", 3*time.Minute)
		n := rows(em, k)
		total += n
		em.Sample(map[string]any{"stack": k, "cases": n})
	}
	em.Watch("", "", 0)
	em.Stats(map[string]int{"evaluations": total, "stacks": len(netstacks.Kinds)})
}
