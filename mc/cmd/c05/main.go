// C05: a channel talks only to an accepted key, and to the same key forever.
// Real p2pke.Channel objects wired through an adversarial transport (chlab); every
// adversary script up to a depth/deviation bound is executed.
package main

import (
	"fmt"
	"strings"
	"time"

	"go.brendoncarroll.net/p2p/f/x509"
	"go.brendoncarroll.net/p2p/p/p2pke"

	"verifmc/chlab"
	"verifmc/evid"
	"verifmc/explore"
	"verifmc/vrt"
)

type cfg struct {
	pred  string // all | none | only-b | only-e
	depth int
	db    int
	seed  uint64
	pre   string // "" | "x-dials-b" | "b-dials-x": a session is established (scripted) before the explored phase
}

func (c cfg) name() string {
	return fmt.Sprintf("accept-%s-depth%d-dev%d-seed%d-pre:%s", c.pred, c.depth, c.db, c.seed, c.pre)
}

func accepts(pred, key string) bool {
	switch pred {
	case "all":
		return true
	case "none":
		return false
	case "only-b":
		return key == "b"
	case "only-e":
		return key == "c"
	}
	return false
}

type result struct {
	lab      *chlab.Lab
	x, b, e  *chlab.Node
	impure   bool
	probeErr string
}

func scenario(c cfg) *explore.Scenario {
	sc := &explore.Scenario{Name: c.name(), PB: 0, DB: c.db, NoCache: true}
	sc.Setup = func(x *vrt.Exec) {
		x.MaxSteps = 200000
		x.SchedDeterministic = true
		x.AutoTimers = false
	}
	sc.Body = func(x *vrt.Exec) {
		timing := chlab.Timing{}
		if strings.HasSuffix(c.pre, "-idle") {
			// short intervals so that "idle until every session has expired" is a short prefix
			timing = chlab.Timing{Rekey: 4 * time.Second, KeepAlive: 2 * time.Second, Reject: 6 * time.Second, Handshake: 100 * time.Millisecond}
		}
		lab := chlab.New(x, timing, c.seed)
		defer lab.Close()
		r := &result{lab: lab}
		x.Data = r
		pred := func(k *x509.PublicKey) bool { return accepts(c.pred, chlab.KeyName(*k)) }
		all := func(*x509.PublicKey) bool { return true }
		r.x = lab.NewNode("X", 0, pred) // key a
		r.b = lab.NewNode("B", 1, all)  // key b
		r.e = lab.NewNode("E", 2, all)  // key c ("e" in the design)
		r.x.Peer, r.b.Peer, r.e.Peer = r.b, r.x, r.x
		started := map[string]bool{}
		if c.pre != "" {
			// start from a non-initial state: an established session between X and B
			a, b := r.x, r.b
			if strings.HasPrefix(c.pre, "b-dials-x") {
				a, b = r.b, r.x
			}
			started[a.Name] = true
			lab.StartSend(a, "hello-from-"+a.Name)
			horizon := 10 * time.Second
			if !accepts(c.pred, "b") {
				// the handshake is refused and retried forever: two retries are state enough
				horizon = 600 * time.Millisecond
			}
			lab.FairSuffix(horizon, func() bool { return a.SendReturned > 0 && len(lab.Flight) == 0 })
			_ = b
			if strings.HasSuffix(c.pre, "-idle") {
				// the peer falls silent: every packet is lost until all sessions of the channel have
				// expired (keep-alive, then reject-after), then X is asked to send again, which is
				// what makes a channel sweep its expired sessions
				for x.Now < timing.Reject+2*timing.KeepAlive+time.Second {
					for len(lab.Flight) > 0 {
						lab.Drop(lab.Flight[0])
					}
					if !lab.Fire() {
						x.Advance(time.Second)
					}
				}
				for len(lab.Flight) > 0 {
					lab.Drop(lab.Flight[0])
				}
				lab.StartSend(r.x, "after-idle-from-X")
				started["X"] = true
			}
		}
		for step := 0; step < c.depth; step++ {
			type act struct {
				name string
				cost uint8
				do   func()
			}
			var menu []act
			for _, n := range []*chlab.Node{r.x, r.b, r.e} {
				n := n
				if !started[n.Name] {
					menu = append(menu, act{"send " + n.Name, 0, func() { started[n.Name] = true; lab.StartSend(n, "hello-from-"+n.Name) }})
				}
			}
			for _, p := range lab.Flight {
				p := p
				if p.From == r.x {
					menu = append(menu, act{"deliver X->B", 0, func() { lab.Deliver(p, r.b, false) }})
					menu = append(menu, act{"deliver X->E", 0, func() { lab.Deliver(p, r.e, false) }})
				} else {
					menu = append(menu, act{"deliver ->X", 0, func() { lab.Deliver(p, r.x, false) }})
					menu = append(menu, act{"dup ->X", 1, func() { r.impure = true; lab.Deliver(p, r.x, true) }})
				}
				menu = append(menu, act{"drop", 1, func() { r.impure = true; lab.Drop(p) }})
			}
			if _, ok := x.NextTimer(); ok {
				menu = append(menu, act{"fire", 0, func() { lab.Fire() }})
			}
			if started["B"] && r.b.Gen == 0 {
				menu = append(menu, act{"restart B", 1, func() { r.impure = true; r.b.Restart(); lab.StartSend(r.b, "hello-again-from-B") }})
			}
			costs := make([]uint8, len(menu)+1)
			for i, a := range menu {
				costs[i+1] = a.cost
			}
			k := x.Choose(len(menu)+1, costs, "adversary")
			if k == 0 {
				break
			}
			menu[k-1].do()
		}
		// a handshake by another key must not disturb an established session
		// (only while the established session cannot have idled out: the keep-alive window)
		// (not after the idle prefix: re-establishing a channel after an outage is C07's subject)
		if len(r.x.KeyHistory) == 1 && !r.impure && x.Now < p2pke.KeepAliveTimeout && !strings.HasSuffix(c.pre, "-idle") {
			var peer *chlab.Node
			switch r.x.KeyHistory[0] {
			case "b":
				peer = r.b
			case "c":
				peer = r.e
			}
			if peer != nil && len(peer.KeyHistory) > 0 && peer.KeyHistory[0] == "a" {
				r.x.Peer, peer.Peer = peer, r.x
				for _, other := range []*chlab.Node{r.b, r.e} {
					if other != peer {
						other.Peer = nil
					}
				}
				lab.StartSend(r.x, "probe-from-X")
				_, ok := lab.FairSuffix(p2pke.RejectAfterTime, func() bool { return has(peer.Received, "probe-from-X") })
				if !ok {
					r.probeErr = fmt.Sprintf("X -> %s probe not delivered", peer.Name)
				} else {
					lab.StartSend(peer, "probe-to-X")
					if _, ok := lab.FairSuffix(p2pke.RejectAfterTime, func() bool { return has(r.x.Received, "probe-to-X") }); !ok {
						r.probeErr = fmt.Sprintf("%s -> X probe not delivered", peer.Name)
					}
				}
			}
		}
	}
	sc.Check = func(x *vrt.Exec) []explore.Finding {
		r := x.Data.(*result)
		var fs []explore.Finding
		add := func(kind, detail string) {
			fs = append(fs, explore.Finding{Kind: kind, Site: "Channel", Detail: fmt.Sprintf("predicate=%s: %s; script: %s", c.pred, detail, strings.Join(r.lab.Trace, " "))})
		}
		if x.HorizonHit {
			add("step-horizon", "did not finish")
			return fs
		}
		n := r.x
		for _, k := range n.KeyHistory {
			if !accepts(c.pred, k) {
				add("rejected-key-became-remote-key", fmt.Sprintf("X reports remote key %s which its predicate rejects", k))
			}
		}
		if n.SendOK > 0 {
			for _, k := range n.DataSentTo {
				if !accepts(c.pred, k) {
					add("encrypted-to-rejected-key", fmt.Sprintf("X's Send succeeded and data was encrypted to key %q", k))
				}
			}
		}
		for i, k := range n.ReceivedFrom {
			if !accepts(c.pred, k) {
				add("data-from-rejected-key", fmt.Sprintf("X delivered %q from key %q", n.Received[i], k))
			}
		}
		// every node is honest and payloads name their sender, so the key that encrypted a
		// delivered payload is known independently of what the channel reports
		for _, pl := range n.Received {
			for suffix, k := range map[string]string{"-from-B": "b", "-from-E": "c"} {
				if strings.HasSuffix(pl, suffix) && !accepts(c.pred, k) {
					add("data-from-rejected-key", fmt.Sprintf("X delivered %q, which was sent by key %q", pl, k))
				}
			}
		}
		for _, k := range n.DataSentTo {
			if !accepts(c.pred, k) {
				add("encrypted-to-rejected-key", fmt.Sprintf("X emitted application ciphertext while its remote key was %q", k))
			}
		}
		if len(n.KeyHistory) > 1 {
			add("remote-key-changed", fmt.Sprintf("X's remote key changed: %v", n.KeyHistory))
		}
		if r.probeErr != "" {
			add("established-session-disturbed", r.probeErr)
		}
		return fs
	}
	sc.Outcome = func(x *vrt.Exec) string {
		r := x.Data.(*result)
		return fmt.Sprintf("xkeys=%v sendok=%d recv=%d", r.x.KeyHistory, r.x.SendOK, len(r.x.Received))
	}
	return sc
}

func has(xs []string, s string) bool {
	for _, x := range xs {
		if x == s {
			return true
		}
	}
	return false
}

func main() {
	run := evid.Start("C05", "model_checking")
	depth := evid.Pick(run, 6, 8)
	db := evid.Pick(run, 1, 2)
	var scs []*explore.Scenario
	for _, pred := range []string{"all", "none", "only-b", "only-e"} {
		for _, seed := range []uint64{1, 2} {
			scs = append(scs, scenario(cfg{pred: pred, depth: depth, db: db, seed: seed}))
		}
	}
	for _, pred := range []string{"all", "only-b", "none", "only-e"} {
		for _, pre := range []string{"x-dials-b", "b-dials-x"} {
			scs = append(scs, scenario(cfg{pred: pred, depth: depth, db: db, seed: 1, pre: pre}))
		}
	}
	// "forever": the binding must survive the expiry of every session of the channel
	for _, pre := range []string{"x-dials-b-idle", "b-dials-x-idle"} {
		scs = append(scs, scenario(cfg{pred: "all", depth: depth, db: db, seed: 1, pre: pre}))
	}
	explore.Main(run, scs, evid.Pick(run, 150*time.Second, 20*time.Minute))
	run.Set("depth", depth)
	run.Set("deviation_bound", db)
	run.Assume("scheduling inside Channel handlers is deterministic (each handler is one critical section); two RNG seeds give the two tie-break outcomes of simultaneous initiation")
	run.Finish()
}
