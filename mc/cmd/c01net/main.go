// c01net: free-running rows of C01 for sshswarm and quicswarm (outside the controlled
// scheduler). For every payload length of a small boundary set and for 1 and 2 concurrent
// senders, in both directions of a connection (dialled by the first Tell, then answered
// back to the source address the receiver was given), the real swarms run on loopback:
// what a callback receives must be byte-identical to a told payload, carry the sender's
// identity as source and the receiver's identity as destination, and stay intact while the
// callback holds it although the sender scribbles over its buffer right after Tell.
package main

import (
	"bytes"
	"context"
	"flag"
	"fmt"
	"io"
	"log"
	"strings"
	"sync"
	"time"

	"go.brendoncarroll.net/p2p"

	"verifmc/netrows"
	"verifmc/netstacks"
	"verifmc/stacks"
)

const slack = 30 * time.Second

func gen(l int, tag byte) []byte {
	p := make([]byte, l)
	for i := range p {
		p[i] = byte(i*5) + tag
	}
	if l > 0 {
		p[0] = tag
	}
	return p
}

func identity(text string) string {
	if i := strings.Index(text, "@"); i >= 0 {
		return text[:i]
	}
	return text
}

type got struct {
	src, dst     int
	srcID, dstID string
	srcText      string
	payload      []byte
	stable       bool
}

type node struct {
	n    *stacks.Node
	ch   chan got
	stop context.CancelFunc
}

func listen(n *stacks.Node, receivers int) *node {
	ctx, cf := context.WithCancel(context.Background())
	nd := &node{n: n, ch: make(chan got, 64), stop: cf}
	for i := 0; i < receivers; i++ {
		go func() {
			for {
				err := n.Receive(ctx, func(m stacks.Msg) {
					first := append([]byte{}, m.Payload...)
					time.Sleep(2 * time.Millisecond) // hold the message while other traffic flows
					g := got{src: m.Src, dst: m.Dst, srcID: identity(m.SrcText), dstID: identity(m.DstText), srcText: m.SrcText, payload: first, stable: bytes.Equal(first, m.Payload)}
					for i := range m.Payload {
						m.Payload[i] = 0xEE // the callback owns the buffer
					}
					nd.ch <- g
				})
				if err != nil {
					return
				}
			}
		}()
	}
	return nd
}

func rows(em *netrows.Emitter, kind string) (cases int) {
	fail := func(k, detail string, w any) { em.Violation(k, kind, kind+": "+detail, w) }
	st, err := netstacks.Build(kind, 3)
	if err != nil {
		em.Note(kind + ": cannot build: " + err.Error())
		return 0
	}
	defer func() {
		for _, n := range st.Nodes {
			n.Close()
		}
	}()
	ids := make([]string, len(st.Nodes))
	nodes := make([]*node, len(st.Nodes))
	for i, n := range st.Nodes {
		ids[i] = identity(n.Local()[0])
		nodes[i] = listen(n, 2)
	}
	defer func() {
		for _, nd := range nodes {
			nd.stop()
		}
	}()
	mtu := st.Nodes[0].MTU()
	sizes := []int{0, 1, 2, 1000, mtu}
	if mtu > 1<<18 {
		sizes = []int{0, 1, 2, 1000, 1 << 16, mtu}
	}
	// expect collects exactly len(want) messages at node `at` and checks them.
	expect := func(at int, want map[string]int, w map[string]any, what string) []got {
		var gs []got
		for len(gs) < len(want) {
			select {
			case g := <-nodes[at].ch:
				gs = append(gs, g)
			case <-time.After(slack):
				fail("told-message-not-delivered", fmt.Sprintf("%s: %d of %d told messages arrived at node %d within %v", what, len(gs), len(want), at, slack), w)
				return gs
			}
		}
		seen := map[string]bool{}
		for _, g := range gs {
			from, ok := want[string(g.payload)]
			switch {
			case !ok:
				fail("invented-payload", fmt.Sprintf("%s: node %d received %d bytes (%x..) that nobody told it", what, at, len(g.payload), head(g.payload)), w)
				continue
			case seen[string(g.payload)]:
				fail("delivered-twice", fmt.Sprintf("%s: node %d received the same %d byte message twice", what, at, len(g.payload)), w)
			}
			seen[string(g.payload)] = true
			if g.srcID != ids[from] {
				fail("wrong-source", fmt.Sprintf("%s: message told by node %d (identity %s) was delivered with source %q", what, from, ids[from], g.srcText), w)
			}
			if g.dstID != ids[at] {
				fail("wrong-destination", fmt.Sprintf("%s: message delivered at node %d (identity %s) carries destination identity %q", what, at, ids[at], g.dstID), w)
			}
			if !g.stable {
				fail("payload-changed-during-callback", fmt.Sprintf("%s: the message changed while the callback held it", what), w)
			}
		}
		return gs
	}
	tell := func(from, to int, p []byte) error {
		ctx, cf := context.WithTimeout(context.Background(), slack)
		defer cf()
		buf := append([]byte{}, p...)
		err := st.Nodes[from].Tell(ctx, to, p2p.IOVec{buf})
		for i := range buf {
			buf[i] = 0x55 // the sender may reuse its buffer as soon as Tell returned
		}
		return err
	}
	for _, l := range sizes {
		// node 1 and node 2 tell node 0 concurrently (each dials), distinct payloads
		cases++
		w := map[string]any{"stack": kind, "len": l, "direction": "dialler -> listener", "senders": 2}
		want := map[string]int{}
		var wg sync.WaitGroup
		errs := make([]error, 3)
		for s := 1; s <= 2; s++ {
			p := gen(l, byte(0x10*s))
			if l == 0 {
				// empty payloads cannot be told apart: one sender only
				if s == 2 {
					continue
				}
			}
			want[string(p)] = s
			s := s
			wg.Add(1)
			go func() { defer wg.Done(); errs[s] = tell(s, 0, p) }()
		}
		wg.Wait()
		bad := false
		for s, e := range errs {
			if e != nil {
				fail("tell-failed", fmt.Sprintf("node %d telling %d bytes to node 0 failed: %v", s, l, e), w)
				bad = true
			}
		}
		if bad {
			continue
		}
		gs := expect(0, want, w, fmt.Sprintf("%d bytes, two diallers", l))
		// node 0 answers each of them at the source address it was given (the connection the
		// peer dialled is reused in the other direction)
		cases++
		w2 := map[string]any{"stack": kind, "len": l, "direction": "listener -> dialler (reply to the delivered source address)"}
		for _, g := range gs {
			peer := -1
			for i, id := range ids {
				if id == g.srcID {
					peer = i
				}
			}
			if peer <= 0 {
				continue
			}
			p := gen(l, byte(0x80+peer))
			ctx, cf := context.WithTimeout(context.Background(), slack)
			err := st.Nodes[0].TellText(ctx, g.srcText, p2p.IOVec{append([]byte{}, p...)})
			cf()
			if err != nil {
				fail("tell-failed", fmt.Sprintf("node 0 answering %q (node %d) with %d bytes failed: %v", g.srcText, peer, l, err), w2)
				continue
			}
			expect(peer, map[string]int{string(p): 0}, w2, fmt.Sprintf("%d bytes, answer to the source address of node %d", l, peer))
		}
	}
	return cases
}

func head(p []byte) []byte {
	if len(p) > 8 {
		return p[:8]
	}
	return p
}

func main() {
	flag.Parse() // -tier is registered by package evid (imported through netrows)
	log.SetOutput(io.Discard)
	em := netrows.NewEmitter()
	total := 0
	for _, k := range netstacks.Kinds {
		em.Watch(k, "the rows of this stack", 3*time.Minute)
		n := rows(em, k)
		total += n
		em.Sample(map[string]any{"stack": k, "cases": n})
	}
	em.Watch("", "", 0)
	em.Stats(map[string]int{"evaluations": total, "stacks": len(netstacks.Kinds)})
}
