// selftest: the engine must find a seeded lost update and a seeded lock-order deadlock,
// must not find anything in their corrected variants, and must replay deterministically.
package main

import (
	"fmt"
	"os"

	"verifmc/explore"
	"verifmc/vrt"
	"verifmc/vrt/vatomic"
	"verifmc/vrt/vchan"
	"verifmc/vrt/vsync"
)

func lostUpdate(atomicAdd bool) *explore.Scenario {
	type st struct {
		v    uint64
		done int
	}
	sc := &explore.Scenario{Name: fmt.Sprintf("lost-update-atomic=%v", atomicAdd), PB: 2}
	sc.Setup = func(x *vrt.Exec) { x.Data = &st{} }
	sc.Body = func(x *vrt.Exec) {
		s := x.Data.(*st)
		for i := 0; i < 2; i++ {
			vrt.Go("inc", func() {
				if atomicAdd {
					vatomic.AddUint64(&s.v, 1)
				} else {
					cur := vatomic.LoadUint64(&s.v)
					vatomic.StoreUint64(&s.v, cur+1)
				}
				s.done++
			})
		}
	}
	sc.Check = func(x *vrt.Exec) []explore.Finding {
		s := x.Data.(*st)
		if s.v != 2 {
			return []explore.Finding{{Kind: "lost-update", Site: "toy", Detail: fmt.Sprintf("final value %d", s.v)}}
		}
		return nil
	}
	return sc
}

func deadlock(ordered bool) *explore.Scenario {
	sc := &explore.Scenario{Name: fmt.Sprintf("deadlock-ordered=%v", ordered), PB: 2}
	sc.Body = func(x *vrt.Exec) {
		var a, b vsync.Mutex
		ch := vchan.Make[int](0)
		vrt.Go("t1", func() { a.Lock(); b.Lock(); b.Unlock(); a.Unlock(); ch.Send(1) })
		vrt.Go("t2", func() {
			if ordered {
				a.Lock()
				b.Lock()
				b.Unlock()
				a.Unlock()
			} else {
				b.Lock()
				a.Lock()
				a.Unlock()
				b.Unlock()
			}
			ch.Send(2)
		})
		ch.Recv()
		ch.Recv()
	}
	sc.Check = func(x *vrt.Exec) []explore.Finding {
		if len(x.Parked()) > 0 {
			return []explore.Finding{{Kind: "deadlock", Site: "toy", Detail: fmt.Sprintf("%d threads parked", len(x.Parked()))}}
		}
		return nil
	}
	return sc
}

func main() {
	fail := false
	expect := func(sc *explore.Scenario, want bool) {
		st, vs := explore.InProcess(sc)
		got := len(vs) > 0
		fmt.Printf("selftest %-28s execs=%-5d violations=%d (expected %v) exhaustive=%v\n", sc.Name, st.Execs, len(vs), want, st.Exhaustive)
		if got != want || !st.Exhaustive || len(st.InternalErrs) > 0 {
			fail = true
		}
		if got {
			// replay determinism: the same schedule twice gives the same observation
			for i := 0; i < 2; i++ {
				_, fs := explore.RunOnce(sc, vs[0].Choices)
				if len(fs) == 0 {
					fmt.Println("  replay did not reproduce the finding")
					fail = true
				}
			}
		}
	}
	expect(lostUpdate(false), true)
	expect(lostUpdate(true), false)
	expect(deadlock(false), true)
	expect(deadlock(true), false)
	if fail {
		fmt.Println("SELFTEST FAILED")
		os.Exit(1)
	}
	fmt.Println("selftest ok")
}
