// C03: a session is usable only after the peer proved its key for this handshake.
// Bounded Dolev-Yao adversary around real honest Sessions: the attacker owns key e, runs
// its own Noise states, sees every message, and crafts InitHello / RespHello / InitDone
// with spliced signed fields. Every attack script up to a depth bound is enumerated.
package main

import (
	"bytes"
	"encoding/binary"
	"fmt"
	"runtime"
	"strings"
	"sync"
	"time"

	"github.com/flynn/noise"
	"go.brendoncarroll.net/tai64"
	"google.golang.org/protobuf/proto"

	"go.brendoncarroll.net/p2p/f/x509"
	"go.brendoncarroll.net/p2p/p/p2pke"

	"verifmc/evid"
	"verifmc/pk"
	"verifmc/seqmc"
)

var run *evid.Run
var t0 = time.Unix(1_700_000_000, 0)
var reg = x509.DefaultRegistry()

const (
	keyA = 0
	keyB = 1
	keyE = 2
)

func pubBytes(i int) []byte {
	p := pk.Pub(i)
	return x509.MarshalPublicKey(nil, &p)
}

// ---- the attacker's hand-written protocol implementation ----

type claim struct {
	name string
	key  []byte
	ts   []byte
	sig  []byte
}

func header(n uint32) []byte {
	h := make([]byte, 4)
	binary.BigEndian.PutUint32(h, n)
	return h
}

func newHS(initiator bool) *noise.HandshakeState {
	hs, err := noise.NewHandshakeState(noise.Config{Initiator: initiator, Pattern: noise.HandshakeNN, CipherSuite: p2pke.VerifCipherSuite()})
	if err != nil {
		panic(err)
	}
	return hs
}

type craftInit struct {
	hs      *noise.HandshakeState
	pre     []byte // binding before RespHello
	final   []byte
	out, in noise.Cipher
	target  int
	respKey []byte
	respSig []byte
}

func (c *craftInit) initHello(cl claim) []byte {
	c.hs = newHS(true)
	body, _ := proto.Marshal(&p2pke.InitHello{Version: 1, TimestampTai64N: cl.ts, KeyX509: cl.key, Sig: cl.sig})
	body = append(body, byte(len(body)>>8), byte(len(body)))
	msg, _, _, err := c.hs.WriteMessage(header(0), body)
	if err != nil {
		panic(err)
	}
	c.pre = append([]byte{}, c.hs.ChannelBinding()...)
	return msg
}

// readRespHello lets the attacker learn the responder's claim and derive the keys.
func (c *craftInit) readRespHello(m []byte) bool {
	if c.hs == nil || c.out != nil || len(m) < 4 {
		return false
	}
	payload, cs1, cs2, err := c.hs.ReadMessage(nil, m[4:])
	if err != nil || cs1 == nil {
		return false
	}
	var rh p2pke.RespHello
	if proto.Unmarshal(payload, &rh) == nil {
		c.respKey, c.respSig = rh.KeyX509, rh.Sig
	}
	c.out, c.in = cs1.Cipher(), cs2.Cipher()
	c.final = append([]byte{}, c.hs.ChannelBinding()...)
	return true
}

func (c *craftInit) initDone(sig []byte) []byte {
	body, _ := proto.Marshal(&p2pke.InitDone{Sig: sig})
	h := header(2)
	return c.out.Encrypt(h, 2, h, body)
}

func (c *craftInit) data(counter uint32, pt []byte) []byte {
	h := header(counter)
	return c.out.Encrypt(h, uint64(counter), h, pt)
}

type craftResp struct {
	hs      *noise.HandshakeState
	pre     []byte
	final   []byte
	out, in noise.Cipher
	victim  claim // claim seen in the initiator's InitHello
	target  int
	initSig []byte // signature seen in the victim's InitDone
}

func (c *craftResp) readInitHello(m []byte) bool {
	c.hs = newHS(false)
	payload, _, _, err := c.hs.ReadMessage(nil, m[4:])
	if err != nil || len(payload) < 2 {
		c.hs = nil
		return false
	}
	l := int(binary.BigEndian.Uint16(payload[len(payload)-2:]))
	if l > len(payload)-2 {
		c.hs = nil
		return false
	}
	var ih p2pke.InitHello
	if proto.Unmarshal(payload[len(payload)-2-l:len(payload)-2], &ih) != nil {
		c.hs = nil
		return false
	}
	c.victim = claim{key: ih.KeyX509, ts: ih.TimestampTai64N, sig: ih.Sig}
	c.pre = append([]byte{}, c.hs.ChannelBinding()...)
	return true
}

func (c *craftResp) respHello(key, sig []byte) []byte {
	body, _ := proto.Marshal(&p2pke.RespHello{KeyX509: key, Sig: sig})
	msg, cs1, cs2, err := c.hs.WriteMessage(header(1), body)
	if err != nil {
		panic(err)
	}
	c.out, c.in = cs2.Cipher(), cs1.Cipher()
	c.final = append([]byte{}, c.hs.ChannelBinding()...)
	return msg
}

func (c *craftResp) readInitDone(m []byte) {
	if c.in == nil || len(m) < 4 {
		return
	}
	pt, err := c.in.Decrypt(nil, 2, m[:4], m[4:])
	if err != nil {
		return
	}
	var id p2pke.InitDone
	if proto.Unmarshal(pt, &id) == nil {
		c.initSig = id.Sig
	}
}

func (c *craftResp) respDone() []byte {
	h := header(3)
	return c.out.Encrypt(h, 3, h, nil)
}

func (c *craftResp) data(counter uint32, pt []byte) []byte {
	h := header(counter)
	return c.out.Encrypt(h, uint64(counter), h, pt)
}

// ---- the world ----

type honest struct {
	name string
	key  int
	s    *p2pke.Session
}

type world struct {
	h       []*honest // A1 (init a), B1 (resp b), A2 (resp a), B2 (init b), B3 (resp b)
	ci      [2]*craftInit
	cr      [2]*craftResp
	trace   []string
	sigBank map[string][]byte // signatures the attacker has seen or made, by description
	lastApp bool
	ih      map[int][]byte // the InitHello every honest initiator put on the wire
}

func newWorld() *world {
	w := &world{sigBank: map[string][]byte{}}
	mk := func(name string, key int, init bool) {
		w.h = append(w.h, &honest{name: name, key: key, s: p2pke.NewSession(p2pke.SessionConfig{Registry: reg, PrivateKey: pk.Key(key), IsInit: init, Now: t0, RejectAfter: time.Hour, Logger: pk.Nop})})
	}
	mk("A1", keyA, true)
	mk("B1", keyB, false)
	mk("A2", keyA, false)
	mk("B2", keyB, true)
	mk("B3", keyB, false) // a second responder of b: a handshake recorded at B1 can be replayed here
	for i := range w.ci {
		w.ci[i] = &craftInit{target: -1}
		w.cr[i] = &craftResp{target: -1}
	}
	w.ih = map[int][]byte{0: w.h[0].s.Handshake(nil), 3: w.h[3].s.Handshake(nil)}
	return w
}

func parseClaim(ih []byte) claim {
	m, _ := p2pke.ParseMessage(ih)
	x, err := m.GetInitHello()
	if err != nil {
		panic(err)
	}
	return claim{key: x.KeyX509, ts: x.TimestampTai64N, sig: x.Sig}
}

func tsBytes(d time.Duration) []byte {
	t := tai64.FromGoTime(t0.Add(d)).Marshal()
	return t[:]
}

// claims the attacker can put into a crafted InitHello.
func (w *world) claims() []claim {
	a := parseClaim(w.ih[0]) // a's genuine claim, visible on the wire
	b := parseClaim(w.ih[3]) // b's genuine claim (b initiating somewhere)
	a.name, b.name = "a-genuine-claim", "b-genuine-claim"
	ts := tsBytes(time.Second)
	eSigOnce.Do(func() { eSigTsCached = p2pke.VerifSign(reg, pk.Key(keyE), p2pke.VerifPurposeTimestamp, ts) })
	eSigTs := eSigTsCached
	return []claim{
		{name: "e-genuine-claim", key: pubBytes(keyE), ts: ts, sig: eSigTs},
		a,
		b,
		{name: "a-key-with-e-signature", key: pubBytes(keyA), ts: ts, sig: eSigTs},
		{name: "a-key-with-a-sig-over-other-timestamp", key: pubBytes(keyA), ts: ts, sig: a.sig},
	}
}

// signatures available for a crafted RespHello / InitDone given the relevant bindings.
func (w *world) sigMenu(binding []byte, victimKey int) [][2]any {
	var out [][2]any
	out = append(out, [2]any{"e-signs-this-binding", p2pke.VerifSign(reg, pk.Key(keyE), p2pke.VerifPurposeChannelBinding, binding)})
	out = append(out, [2]any{"e-signs-binding-as-timestamp-purpose", p2pke.VerifSign(reg, pk.Key(keyE), p2pke.VerifPurposeTimestamp, binding)})
	out = append(out, [2]any{"empty", []byte{}})
	for name, sig := range w.sigBank {
		out = append(out, [2]any{"captured:" + name, sig})
	}
	// deterministic order
	for i := 0; i < len(out); i++ {
		for j := i + 1; j < len(out); j++ {
			if out[j][0].(string) < out[i][0].(string) {
				out[i], out[j] = out[j], out[i]
			}
		}
	}
	return out
}

var (
	eSigOnce     sync.Once
	eSigTsCached []byte
)

type violation struct{ kind, site, detail string }

func (w *world) keyName(k x509.PublicKey) string {
	for i, n := range []string{"a", "b", "e"} {
		p := pk.Pub(i)
		if x509.EqualPublicKeys(&p, &k) {
			return n
		}
	}
	if k.IsZero() {
		return "none"
	}
	return "unknown"
}

// oracle: evaluated after every single delivery.
func (w *world) oracle(after string) {
	// "this very handshake": two responder sessions must never share a key-exchange
	// transcript, or a signature made for one handshake is valid in the other
	for i, h := range w.h {
		for j := i + 1; j < len(w.h); j++ {
			o := w.h[j]
			if !h.s.IsInit() && !o.s.IsInit() && h.s.VerifHsIndex() >= 1 && o.s.VerifHsIndex() >= 1 && bytes.Equal(h.s.VerifBinding(), o.s.VerifBinding()) {
				panic(violation{"handshake-transcript-not-fresh", "Session", fmt.Sprintf("responder sessions %s and %s share one key-exchange transcript after %s: what the initiator signs for one handshake authenticates the other as well", h.name, o.name, after)})
			}
		}
	}
	for i, h := range w.h {
		s := h.s
		usable := s.IsReady()
		if !usable {
			// does it agree to encrypt?
			if _, err := s.Send(nil, []byte("probe"), t0); err == nil {
				usable = true
			}
		}
		if !usable {
			continue
		}
		rk := s.RemoteKey()
		who := w.keyName(rk)
		switch who {
		case "e":
			continue // the attacker authenticated as itself
		case "a", "b":
			// legitimate only if an honest session of that party shares this transcript
			ok := false
			for j, o := range w.h {
				if j != i && w.keyName(pk.Pub(o.key)) == who && o.s.IsInit() != s.IsInit() && bytes.Equal(o.s.VerifBinding(), s.VerifBinding()) {
					ok = true
				}
			}
			if !ok {
				panic(violation{"victim-key-authenticated-without-proof", "Session", fmt.Sprintf("%s (index %d) is usable and reports remote key %s after %s, but no session of %s took part in this handshake", h.name, s.VerifHsIndex(), who, after, who)})
			}
		default:
			panic(violation{"usable-without-remote-key", "Session", fmt.Sprintf("%s is usable with remote key %s after %s", h.name, who, after)})
		}
	}
}

func (w *world) deliver(to int, m []byte, what string) {
	if m == nil {
		return
	}
	s := w.h[to].s
	before := s.VerifHsIndex()
	isApp, out, err := s.Deliver(nil, m, t0)
	w.trace = append(w.trace, fmt.Sprintf("%s <- %s", w.h[to].name, what))
	if _, early := err.(p2pke.ErrEarlyData); early && s.VerifHsIndex() != before {
		panic(violation{"early-data-changed-state", "Session.Deliver", fmt.Sprintf("%s rejected early data but its state moved from %d to %d", w.h[to].name, before, s.VerifHsIndex())})
	}
	if isApp && err == nil {
		rk := w.keyName(s.RemoteKey())
		if rk != "e" {
			// application data accepted: the oracle below decides whether that key was proven
			w.lastApp = true
		}
	}
	// the attacker observes replies of handshakes it takes part in
	if err == nil && !isApp && len(out) >= 4 {
		switch binary.BigEndian.Uint32(out[:4]) {
		case 1: // RespHello from an honest responder towards a crafted initiator
			for _, c := range w.ci {
				if c.target == to && c.readRespHello(out) && len(c.respSig) > 0 {
					w.sigBank[fmt.Sprintf("%s-resphello-sig-of-another-handshake", w.h[to].name)] = c.respSig
				}
			}
		case 2: // InitDone from an honest initiator towards a crafted responder
			for _, c := range w.cr {
				if c.target == to {
					c.readInitDone(out)
					if len(c.initSig) > 0 {
						w.sigBank[fmt.Sprintf("%s-initdone-sig-of-another-handshake", w.h[to].name)] = c.initSig
					}
				}
			}
		}
	}
	w.oracle(what)
}

// step lets the chooser pick one attacker action; returns false if the attacker stops.
func (w *world) step(ch *seqmc.Chooser) bool {
	type act struct {
		name string
		do   func()
	}
	var menu []act
	// 1. relay: current handshake message of one honest session to another honest session
	for i, x := range w.h {
		for j := range w.h {
			if i == j {
				continue
			}
			j, x := j, x
			menu = append(menu, act{fmt.Sprintf("relay %s's handshake message to %s", x.name, w.h[j].name), func() {
				w.deliver(j, x.s.Handshake(nil), "relayed handshake message of "+x.name)
			}})
		}
	}
	// 2. crafted InitHello towards an honest responder
	for ci, c := range w.ci {
		if c.hs != nil {
			continue
		}
		for _, to := range []int{1, 2} {
			for _, cl := range w.claims() {
				c, to, cl := c, to, cl
				menu = append(menu, act{fmt.Sprintf("E%d crafts InitHello with %s for %s", ci, cl.name, w.h[to].name), func() {
					c.target = to
					m := c.initHello(cl)
					w.deliver(to, m, "crafted InitHello("+cl.name+")")
				}})
			}
		}
		break // one fresh crafting context at a time is enough (contexts are interchangeable)
	}
	// 3. crafted InitDone / data from an attacker initiator whose RespHello arrived
	for ci, c := range w.ci {
		if c.out == nil {
			continue
		}
		c := c
		for _, sg := range w.sigMenu(c.final, keyA) {
			sg := sg
			menu = append(menu, act{fmt.Sprintf("E%d crafts InitDone with %s for %s", ci, sg[0], w.h[c.target].name), func() {
				w.deliver(c.target, c.initDone(sg[1].([]byte)), "crafted InitDone("+sg[0].(string)+")")
			}})
		}
		menu = append(menu, act{fmt.Sprintf("E%d sends data (counter 16) to %s", ci, w.h[c.target].name), func() {
			w.deliver(c.target, c.data(16, []byte("attacker data")), "crafted data")
		}})
	}
	// 4. attacker as responder: take an honest initiator's InitHello, answer with a crafted RespHello
	for ri, c := range w.cr {
		if c.hs != nil {
			continue
		}
		for _, from := range []int{0, 3} {
			c, from := c, from
			for _, claimed := range []int{keyE, keyB, keyA} {
				claimed := claimed
				tmp := &craftResp{}
				if !tmp.readInitHello(w.ih[from]) {
					continue
				}
				for _, sg := range w.sigMenu(tmp.pre, claimed) {
					sg := sg
					menu = append(menu, act{fmt.Sprintf("R%d answers %s with RespHello claiming key %s signed: %s", ri, w.h[from].name, []string{"a", "b", "e"}[claimed], sg[0]), func() {
						if !c.readInitHello(w.ih[from]) {
							return
						}
						c.target = from
						w.sigBank[w.h[from].name+"-timestamp-sig"] = c.victim.sig
						sig := sg[1].([]byte)
						if strings.HasPrefix(sg[0].(string), "e-signs-this-binding") {
							sig = p2pke.VerifSign(reg, pk.Key(keyE), p2pke.VerifPurposeChannelBinding, c.pre)
						}
						w.deliver(from, c.respHello(pubBytes(claimed), sig), "crafted RespHello(key="+[]string{"a", "b", "e"}[claimed]+","+sg[0].(string)+")")
					}})
				}
			}
		}
		break
	}
	// 5. attacker responder continues: RespDone / data
	for ri, c := range w.cr {
		if c.out == nil {
			continue
		}
		c := c
		menu = append(menu, act{fmt.Sprintf("R%d sends RespDone to %s", ri, w.h[c.target].name), func() {
			w.deliver(c.target, c.respDone(), "crafted RespDone")
		}})
		menu = append(menu, act{fmt.Sprintf("R%d sends data (counter 16) to %s", ri, w.h[c.target].name), func() {
			w.deliver(c.target, c.data(16, []byte("attacker data")), "crafted data")
		}})
	}
	c := ch.Choose(len(menu) + 1)
	if c == 0 {
		return false
	}
	a := menu[c-1]
	w.trace = append(w.trace, "# "+a.name)
	a.do()
	return true
}

func runScript(depth int, ch *seqmc.Chooser) (v *violation, trace []string) {
	w := newWorld()
	defer func() {
		trace = w.trace
		if r := recover(); r != nil {
			if vv, ok := r.(violation); ok {
				v = &vv
			} else {
				v = &violation{"panic", "Session", fmt.Sprintf("panic: %v", r)}
			}
		}
	}()
	for i := 0; i < depth; i++ {
		if !w.step(ch) {
			break
		}
	}
	return nil, nil
}

func main() {
	run = evid.Start("C03", "model_checking")
	depth := evid.Pick(run, 3, 4)
	// split the first choice over workers
	first := 0
	{
		w := newWorld()
		ch := &seqmc.Chooser{}
		func() {
			defer func() { recover() }()
			w.step(ch)
		}()
		first = chWidth(ch)
	}
	var mu sync.Mutex
	total := 0
	capped := 0
	deadline := time.Now().Add(evid.Pick(run, 10*time.Minute, 25*time.Minute))
	var wg sync.WaitGroup
	sem := make(chan struct{}, runtime.NumCPU())
	for f := 0; f < first; f++ {
		f := f
		wg.Add(1)
		sem <- struct{}{}
		go func() {
			defer wg.Done()
			defer func() { <-sem }()
			n, _ := seqmc.EnumerateFrom([]int{f}, 0, func(ch *seqmc.Chooser) {
				if time.Now().After(deadline) {
					// out of time: making no choice ends the enumeration of this sub-tree
					mu.Lock()
					capped++
					mu.Unlock()
					return
				}
				v, trace := runScript(depth, ch)
				if v != nil {
					run.Violate(evid.Violation{Kind: v.kind, Site: v.site, Detail: v.detail, Witness: map[string]any{"script": trace, "choices": ch.Trace()}})
				}
				run.Outcome(fmt.Sprintf("script-length-%d", len(ch.Trace())))
			})
			mu.Lock()
			total += n
			mu.Unlock()
		}()
	}
	wg.Wait()
	run.Set("states", first)
	run.Set("transitions", total)
	run.Set("traces_validated_against_impl", total)
	run.Set("exhaustive", capped == 0)
	if capped > 0 {
		run.Set("caps_hit", fmt.Sprintf("time budget: %d of %d first-level sub-trees were cut short", capped, first))
	}
	run.Set("depth", depth)
	run.Sample(map[string]any{"script": []string{"E0 crafts InitHello with a-genuine-claim for B1", "E0 crafts InitDone with e-signs-this-binding for B1", "E0 sends data (counter 16) to B1"}})
	run.Set("explanation", "states = first-level attacker actions (sub-trees); transitions = complete attack scripts (every sequence of relayed / crafted messages up to the depth bound, each executed against fresh real honest Sessions with the oracle evaluated after every delivery)")
	run.Assume("Ed25519 unforgeability, X25519/ChaCha20-Poly1305/BLAKE2b as ideal primitives; the attacker's crafting menu (claims, signatures, roles) is the alphabet; scripts longer than the depth bound")
	run.Finish()
}

func chWidth(ch *seqmc.Chooser) int { return ch.FirstWidth() }
