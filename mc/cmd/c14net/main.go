// c14net: free-running race pass of C14 for sshswarm and quicswarm (their goroutines live
// in third-party code, outside the controlled scheduler). The helper is built with -race
// and drives, for every stack, concurrent Tell / Ask / Receive / ServeAsk / LookupPublicKey
// / LocalAddrs / MTU calls from several goroutines on shared swarms, with callbacks that
// hold and then scribble over their message, and Close racing with all of it. The race
// detector's reports go to the log files the C14 check parses; a report counts when one of
// the two accesses is performed by repository code.
package main

import (
	"bytes"
	"context"
	"flag"
	"fmt"
	"io"
	"log"
	"sync"
	"time"

	"go.brendoncarroll.net/p2p"

	"verifmc/netrows"
	"verifmc/netstacks"
	"verifmc/stacks"
)

func rows(em *netrows.Emitter, kind string, rounds int) (cases int) {
	fail := func(k, detail string, w any) { em.Violation(k, kind, kind+": "+detail, w) }
	for round := 0; round < rounds; round++ {
		cases++
		st, err := netstacks.Build(kind, 3)
		if err != nil {
			em.Note(kind + ": cannot build: " + err.Error())
			return cases
		}
		lookup := st.Extra["lookup"].(func(context.Context, int, int) error)
		bg, cancel := context.WithCancel(context.Background())
		var wg sync.WaitGroup
		spawn := func(fn func()) { wg.Add(1); go func() { defer wg.Done(); fn() }() }
		var mu sync.Mutex
		changed := 0
		for i, n := range st.Nodes {
			n := n
			for r := 0; r < 2; r++ {
				spawn(func() {
					for n.Receive(bg, func(m stacks.Msg) {
						first := append([]byte{}, m.Payload...)
						time.Sleep(time.Millisecond)
						if !bytes.Equal(first, m.Payload) {
							mu.Lock()
							changed++
							mu.Unlock()
						}
						for k := range m.Payload {
							m.Payload[k] = 0xEE
						}
					}) == nil {
					}
				})
				spawn(func() {
					for n.ServeAsk(bg, func(_ context.Context, resp []byte, m stacks.Msg) int {
						first := append([]byte{}, m.Payload...)
						time.Sleep(time.Millisecond)
						if !bytes.Equal(first, m.Payload) {
							mu.Lock()
							changed++
							mu.Unlock()
						}
						return copy(resp, first)
					}) == nil {
					}
				})
			}
			_ = i
		}
		// traffic: every node tells and asks every other node from two goroutines each
		for from := range st.Nodes {
			for to := range st.Nodes {
				if from == to {
					continue
				}
				from, to := from, to
				for g := 0; g < 2; g++ {
					g := g
					spawn(func() {
						for k := 0; k < 6; k++ {
							ctx, cf := context.WithTimeout(bg, 5*time.Second)
							p := []byte(fmt.Sprintf("tell-%d-%d-%d-%d", from, to, g, k))
							st.Nodes[from].Tell(ctx, to, p2p.IOVec{p})
							for i := range p {
								p[i] = 0x55
							}
							buf := make([]byte, 64)
							st.Nodes[from].Ask(ctx, buf, to, p2p.IOVec{[]byte(fmt.Sprintf("ask-%d-%d-%d-%d", from, to, g, k))})
							lookup(ctx, from, to)
							st.Nodes[from].Local()
							st.Nodes[from].MTU()
							cf()
						}
					})
				}
			}
		}
		// Close races with all of it on one node, then everything shuts down
		spawn(func() {
			time.Sleep(time.Duration(20+round*15) * time.Millisecond)
			st.Nodes[2].Close()
		})
		done := make(chan struct{})
		go func() {
			time.Sleep(1500 * time.Millisecond)
			cancel()
			for _, n := range st.Nodes {
				n.Close()
			}
			wg.Wait()
			close(done)
		}()
		select {
		case <-done:
		case <-time.After(90 * time.Second):
			em.Note(kind + ": a round did not shut down within 90 s (not a verdict of this check)")
		}
		if changed > 0 {
			fail("payload-changed-during-callback", fmt.Sprintf("%d messages changed while their callback held them", changed), map[string]any{"stack": kind, "round": round})
		}
	}
	return cases
}

func main() {
	flag.Parse() // -tier is registered by package evid (imported through netrows)
	tier := "quick"
	if f := flag.Lookup("tier"); f != nil && f.Value.String() != "" {
		tier = f.Value.String()
	}
	log.SetOutput(io.Discard)
	em := netrows.NewEmitter()
	rounds := 2
	if tier == "thorough" {
		rounds = 6
	}
	total := 0
	for _, k := range netstacks.Kinds {
		em.Watch(k, "the rows of this stack", 3*time.Minute)
		n := rows(em, k, rounds)
		total += n
		em.Sample(map[string]any{"stack": k, "rounds": n})
	}
	em.Watch("", "", 0)
	em.Stats(map[string]int{"evaluations": total, "stacks": len(netstacks.Kinds)})
}
