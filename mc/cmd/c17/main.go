// C17: keys and identities have one canonical, lossless encoding.
// Exhaustive grid over algorithm identifiers, key bodies, peer ids and candidate texts.
package main

import (
	"bytes"
	"crypto/x509/pkix"
	"encoding/asn1"
	"fmt"
	"strings"

	"golang.org/x/crypto/sha3"

	"go.brendoncarroll.net/p2p"
	"go.brendoncarroll.net/p2p/f/x509"
	"go.brendoncarroll.net/p2p/f/x509/oids"
	"go.brendoncarroll.net/p2p/s/p2pkeswarm"
	"go.brendoncarroll.net/p2p/s/quicswarm"

	"verifmc/evid"
)

var run *evid.Run

func guard(site string, w any, f func()) {
	defer func() {
		if r := recover(); r != nil {
			run.Violate(evid.Violation{Kind: "panic", Site: site, Detail: fmt.Sprintf("panic: %v", r), Witness: w})
		}
	}()
	f()
}

func oidGrid() [][]int {
	arcs := []int{0, 1, 2, 39, 40, 127, 128, 1<<31 - 1}
	var out [][]int
	var rec func(prefix []int, n int)
	rec = func(prefix []int, n int) {
		if len(prefix) >= 2 {
			out = append(out, append([]int{}, prefix...))
		}
		if n == 0 {
			return
		}
		for _, a := range arcs {
			rec(append(prefix, a), n-1)
		}
	}
	rec(nil, 4)
	out = append(out, []int{1, 3, 101, 112}, []int{1, 3, 101, 113}, []int{1, 2, 840, 113549, 1, 1, 1})
	var ok [][]int
	for _, o := range out {
		// the property quantifies over identifiers ASN.1 can encode
		// ... and decode again: encoding/asn1 itself cannot re-read 2.x arcs near 2^31
		if der, err := asn1.Marshal(asn1.ObjectIdentifier(o)); err == nil {
			var back asn1.ObjectIdentifier
			if _, err := asn1.Unmarshal(der, &back); err == nil && back.Equal(asn1.ObjectIdentifier(o)) {
				ok = append(ok, o)
			}
		}
	}
	return ok
}

func bodies() [][]byte {
	pat := make([]byte, 32)
	for i := range pat {
		pat[i] = byte(i*7 + 1)
	}
	return [][]byte{nil, {}, {0x00}, {0xff}, bytes.Repeat([]byte{0}, 32), bytes.Repeat([]byte{0xff}, 32), pat, append(append([]byte{}, pat...), 0x01), bytes.Repeat([]byte{0xa5}, 256)}
}

func keysCheck() {
	oidsList := oidGrid()
	bs := bodies()
	type mk struct {
		key  x509.PublicKey
		der  string
		fpKE p2p.PeerID
		fpQ  p2p.PeerID
	}
	var all []mk
	for _, o := range oidsList {
		for _, b := range bs {
			k := x509.PublicKey{Algorithm: oids.New(o...), Data: b}
			w := map[string]any{"oid": fmt.Sprint(o), "data": evid.Hex(b)}
			guard("x509", w, func() {
				run.Add("evaluations", 1)
				der := x509.MarshalPublicKey(nil, &k)
				if len(der) == 0 {
					run.Violate(evid.Violation{Kind: "marshal-empty", Site: "x509.MarshalPublicKey", Detail: fmt.Sprintf("oid %v marshals to nothing", o), Witness: w})
					return
				}
				k2, err := x509.ParsePublicKey(der)
				if err != nil || !x509.EqualPublicKeys(&k, &k2) || k2.Algorithm != k.Algorithm || !bytes.Equal(k2.Data, k.Data) {
					run.Violate(evid.Violation{Kind: "key-roundtrip", Site: "x509.ParsePublicKey", Detail: fmt.Sprintf("oid %v data %x -> %v %x err=%v", o, b, k2.Algorithm, k2.Data, err), Witness: w})
					return
				}
				// appended prefix is preserved
				if out := x509.MarshalPublicKey([]byte("pre"), &k); !bytes.Equal(out, append([]byte("pre"), der...)) {
					run.Violate(evid.Violation{Kind: "marshal-append", Site: "x509.MarshalPublicKey", Detail: "does not append to out", Witness: w})
				}
				// fingerprints: a function of the key alone, identical across layers
				fpKE := p2pkeswarm.DefaultFingerprinter(&k)
				fpKE2 := p2pkeswarm.DefaultFingerprinter(&k2)
				fpQ := quicswarm.DefaultFingerprinter(k)
				if fpKE != fpKE2 || quicswarm.DefaultFingerprinter(k2) != fpQ {
					run.Violate(evid.Violation{Kind: "fingerprint-not-function-of-key", Site: "DefaultFingerprinter", Detail: fmt.Sprintf("oid %v data %x", o, b), Witness: w})
				}
				if fpKE != fpQ {
					run.Violate(evid.Violation{Kind: "fingerprint-differs-across-layers", Site: "DefaultFingerprinter", Detail: fmt.Sprintf("p2pkeswarm=%v quicswarm=%v for the same key", fpKE, fpQ), Witness: w})
				}
				// a DER with explicit NULL parameters is the same key and must have the same identity
				alt, err := asn1.Marshal(struct {
					pkix.AlgorithmIdentifier
					asn1.BitString
				}{pkix.AlgorithmIdentifier{Algorithm: asn1.ObjectIdentifier(o), Parameters: asn1.NullRawValue}, asn1.BitString{Bytes: b, BitLength: len(b) * 8}})
				if err == nil {
					if k3, err := x509.ParsePublicKey(alt); err == nil {
						if x509.EqualPublicKeys(&k, &k3) && p2pkeswarm.DefaultFingerprinter(&k3) != fpKE {
							run.Violate(evid.Violation{Kind: "fingerprint-depends-on-wire-bytes", Site: "DefaultFingerprinter", Detail: fmt.Sprintf("oid %v: NULL-parameter encoding has another fingerprint", o), Witness: w})
						}
					}
				}
				all = append(all, mk{k, string(der), fpKE, fpQ})
			})
		}
	}
	// keys parsed one after the other out of one reused receive buffer (ParsePublicKey may
	// alias its input): the identity of each must still be the identity of that key
	buf := make([]byte, 0, 256)
	for i := range all {
		m := all[i]
		w := map[string]any{"index": i, "der": evid.Hex([]byte(m.der))}
		guard("DefaultFingerprinter", w, func() {
			run.Add("evaluations", 1)
			buf = append(buf[:0], m.der...)
			k, err := x509.ParsePublicKey(buf)
			if err != nil {
				return
			}
			if got := p2pkeswarm.DefaultFingerprinter(&k); got != m.fpKE {
				run.Violate(evid.Violation{Kind: "fingerprint-not-function-of-key", Site: "DefaultFingerprinter", Detail: fmt.Sprintf("p2pkeswarm: key %v %x parsed from a reused buffer gets identity %v, the same key got %v before (the previous key in that buffer was another one)", k.Algorithm, k.Data, got, m.fpKE), Witness: w})
			}
			if got := quicswarm.DefaultFingerprinter(k); got != m.fpQ {
				run.Violate(evid.Violation{Kind: "fingerprint-not-function-of-key", Site: "DefaultFingerprinter", Detail: fmt.Sprintf("quicswarm: key %v %x parsed from a reused buffer gets identity %v, the same key got %v before", k.Algorithm, k.Data, got, m.fpQ), Witness: w})
			}
		})
	}
	// equality <=> equal encodings, over all pairs (nil and empty data are the same key)
	n := len(all)
	if n > 700 {
		n = 700
	}
	for i := 0; i < n; i++ {
		for j := 0; j < n; j++ {
			run.Add("evaluations", 1)
			eq := x509.EqualPublicKeys(&all[i].key, &all[j].key)
			if eq != (all[i].der == all[j].der) {
				run.Violate(evid.Violation{Kind: "equal-iff-same-encoding", Site: "x509.EqualPublicKeys", Detail: fmt.Sprintf("Equal=%v but encodings equal=%v", eq, all[i].der == all[j].der),
					Witness: map[string]any{"a": fmt.Sprintf("%v %x", all[i].key.Algorithm, all[i].key.Data), "b": fmt.Sprintf("%v %x", all[j].key.Algorithm, all[j].key.Data)}})
				return
			}
		}
	}
	run.Add("states", len(all))
	run.Sample(map[string]any{"oid": "1.3.101.112", "data": "32 bytes", "checks": "Parse(Marshal(k))==k, fingerprints, NULL-parameter DER"})
}

func idGrid() []p2p.PeerID {
	var ids []p2p.PeerID
	ids = append(ids, p2p.PeerID{})
	var ff p2p.PeerID
	for i := range ff {
		ff[i] = 0xff
	}
	ids = append(ids, ff)
	var one p2p.PeerID
	one[0] = 1
	ids = append(ids, one)
	var last p2p.PeerID
	last[31] = 1
	ids = append(ids, last)
	var seq p2p.PeerID
	for i := range seq {
		seq[i] = byte(i * 8)
	}
	ids = append(ids, seq)
	for i := 0; i < 16; i++ {
		var id p2p.PeerID
		sha3.ShakeSum256(id[:], []byte{byte(i)})
		ids = append(ids, id)
	}
	// neighbours that differ in one bit at symbol boundaries (6-bit groups)
	for _, bit := range []int{0, 5, 6, 7, 8, 250, 251, 252, 255} {
		var id p2p.PeerID
		id[bit/8] = 0x80 >> (bit % 8)
		ids = append(ids, id)
	}
	return ids
}

func peerIDCheck() {
	ids := idGrid()
	texts := make([]string, len(ids))
	for i, id := range ids {
		id := id
		guard("PeerID", id.String(), func() {
			run.Add("evaluations", 1)
			t, err := id.MarshalText()
			if err != nil {
				run.Violate(evid.Violation{Kind: "peerid-marshal", Site: "PeerID.MarshalText", Detail: err.Error(), Witness: evid.Hex(id[:])})
				return
			}
			texts[i] = string(t)
			var back p2p.PeerID
			if err := back.UnmarshalText(t); err != nil || back != id {
				run.Violate(evid.Violation{Kind: "peerid-roundtrip", Site: "PeerID.UnmarshalText", Detail: fmt.Sprintf("%x -> %q -> %x err=%v", id[:], t, back[:], err), Witness: evid.Hex(id[:])})
			}
			if id.String() != string(t) || id.Base64String() != string(t) {
				run.Violate(evid.Violation{Kind: "peerid-string", Site: "PeerID.String", Detail: "String/Base64String differ from MarshalText", Witness: evid.Hex(id[:])})
			}
		})
	}
	for i := range ids {
		for j := range ids {
			run.Add("evaluations", 1)
			c1 := ids[i].Compare(ids[j])
			c2 := strings.Compare(texts[i], texts[j])
			if sign(c1) != sign(c2) {
				run.Violate(evid.Violation{Kind: "peerid-order", Site: "PeerID.MarshalText", Detail: fmt.Sprintf("ids compare %d but texts %q %q compare %d", c1, texts[i], texts[j], c2), Witness: []string{evid.Hex(ids[i][:]), evid.Hex(ids[j][:])}})
			}
			if ids[i].Lt(ids[j]) != (c1 < 0) {
				run.Violate(evid.Violation{Kind: "peerid-order", Site: "PeerID.Lt", Detail: "Lt disagrees with Compare", Witness: []string{evid.Hex(ids[i][:]), evid.Hex(ids[j][:])}})
			}
		}
	}
	// invalid texts must be rejected and leave the receiver untouched
	sentinel := ids[5]
	bad := func(text string, why string) {
		run.Add("evaluations", 1)
		run.Add("transitions", 1)
		guard("PeerID.UnmarshalText", text, func() {
			got := sentinel
			err := got.UnmarshalText([]byte(text))
			if err == nil {
				run.Violate(evid.Violation{Kind: "invalid-text-accepted", Site: "PeerID.UnmarshalText", Detail: fmt.Sprintf("%s: %q accepted as %x", why, text, got[:]), Witness: text})
			} else if got != sentinel {
				run.Violate(evid.Violation{Kind: "receiver-clobbered", Site: "PeerID.UnmarshalText", Detail: fmt.Sprintf("%s: error returned but the receiver changed", why), Witness: text})
			}
		})
	}
	outside := []byte{'=', '+', '/', ' ', '.', ',', '@', ':', '~', 0x00, 0x7f, 0xff, '\n'}
	for ti, t := range texts {
		if ti > 6 {
			break
		}
		for pos := 0; pos < len(t); pos++ {
			for _, c := range outside {
				b := []byte(t)
				b[pos] = c
				bad(string(b), "symbol outside the alphabet")
			}
		}
		bad(t[:len(t)-1], "42 symbols")
		bad(t+"-", "44 symbols")
		bad(t+"=", "padded")
	}
	alpha := []byte("-0AZ_az=+/ ")
	bad("", "empty")
	for _, a := range alpha {
		bad(string([]byte{a}), "1 symbol")
		for _, b := range alpha {
			bad(string([]byte{a, b}), "2 symbols")
		}
	}
	run.Add("states", len(ids))
	run.Sample(map[string]any{"id": evid.Hex(ids[4][:]), "text": texts[4]})
}

func sign(x int) int {
	switch {
	case x < 0:
		return -1
	case x > 0:
		return 1
	}
	return 0
}

func main() {
	run = evid.Start("C17", "model_checking")
	keysCheck()
	peerIDCheck()
	run.Set("traces_validated_against_impl", run.Get("evaluations"))
	if run.Get("transitions") == 0 {
		run.Set("transitions", 1)
	}
	run.Set("exhaustive", true)
	run.Set("explanation", "exhaustive grid: states = distinct keys / peer ids enumerated, transitions = invalid-text probes; evaluations = all individual round-trip, pairwise-equality, ordering and fingerprint checks, executed on the real codecs")
	run.Assume("object identifiers that ASN.1 cannot encode are outside 'every algorithm identifier'; ids and bodies beyond the grid")
	run.Finish()
}
