// c12net: free-running rows of C12 for sshswarm and quicswarm (their goroutines and sockets
// live in third-party code, outside the controlled scheduler). For every configuration of
// {connection established before Close or not} x {1 or 3 blocked Receives} the real swarms
// run on loopback: blocked and late Receive/ServeAsk calls must return non-nil, a message
// told after Close returned must never reach a callback, a second Close must not panic and
// the goroutines the closed swarms started must be gone. Waits are long and only give up.
package main

import (
	"context"
	"flag"
	"fmt"
	"io"
	"log"
	"regexp"
	"runtime"
	"sort"
	"strings"
	"sync"
	"time"

	"go.brendoncarroll.net/p2p"

	"verifmc/netrows"
	"verifmc/netstacks"
	"verifmc/stacks"
)

const slack = 20 * time.Second

var repoFrame = regexp.MustCompile(`go\.brendoncarroll\.net/p2p/(s/sshswarm|s/quicswarm|s/udpswarm|s/memswarm|s/swarmutil|p/p2pconn)[./(]`)

// repoGoroutines returns, per top repository function, the number of goroutines currently
// running code of the swarm packages.
func repoGoroutines() map[string]int {
	buf := make([]byte, 1<<22)
	buf = buf[:runtime.Stack(buf, true)]
	out := map[string]int{}
	for _, g := range strings.Split(string(buf), "\n\n") {
		if strings.Contains(g, "cmd/c12net") {
			continue // a harness goroutine blocked inside a library call is not one the swarm started
		}
		for _, ln := range strings.Split(g, "\n") {
			if repoFrame.MatchString(ln) {
				fn := strings.TrimSpace(ln)
				if i := strings.LastIndex(fn, "("); i > 0 {
					fn = fn[:i] // drop the argument list
				}
				out[fn]++
				break
			}
		}
	}
	return out
}

type call struct {
	name string
	done chan error
}

func rows(em *netrows.Emitter, kind string) (cases int) {
	fail := func(k, detail string, w any) { em.Violation(k, kind, kind+": "+detail, w) }
	for _, warm := range []bool{false, true} {
		for _, receivers := range []int{1, 3} {
			cases++
			w := map[string]any{"stack": kind, "connection_established_before_close": warm, "blocked_receives": receivers}
			base := repoGoroutines()
			st, err := netstacks.Build(kind, 2)
			if err != nil {
				em.Note(kind + ": cannot build: " + err.Error())
				continue
			}
			target, peer := st.Nodes[0], st.Nodes[1]
			bg := context.Background()
			var mu sync.Mutex
			closed := false
			var afterClose []string
			onMsg := func(p []byte) {
				mu.Lock()
				defer mu.Unlock()
				if closed && strings.HasPrefix(string(p), "told-after-close") {
					afterClose = append(afterClose, string(p))
				}
			}
			start := func(name string, serve bool) call {
				c := call{name: name, done: make(chan error, 1)}
				go func() {
					if serve {
						c.done <- target.ServeAsk(bg, func(_ context.Context, resp []byte, m stacks.Msg) int { onMsg(m.Payload); return 0 })
					} else {
						c.done <- target.Receive(bg, func(m stacks.Msg) { onMsg(m.Payload) })
					}
				}()
				return c
			}
			if warm {
				// establish the connection: one message is received before anything blocks
				got := make(chan struct{}, 1)
				go target.Receive(bg, func(stacks.Msg) { got <- struct{}{} })
				ctx, cf := context.WithTimeout(bg, 10*time.Second)
				err := peer.Tell(ctx, 0, p2p.IOVec{[]byte("warm-up")})
				cf()
				select {
				case <-got:
				case <-time.After(slack):
					em.Note(fmt.Sprintf("%s: warm-up message not delivered (tell err=%v), case skipped", kind, err))
					target.Close()
					peer.Close()
					continue
				}
			}
			var blocked []call
			for i := 0; i < receivers; i++ {
				blocked = append(blocked, start(fmt.Sprintf("Receive#%d", i), false))
			}
			blocked = append(blocked, start("ServeAsk", true))
			time.Sleep(50 * time.Millisecond) // let them reach their blocking point (not an oracle)
			closeErr := target.Close()
			mu.Lock()
			closed = true
			mu.Unlock()
			_ = closeErr
			stuck := false
			giveUp := time.After(slack) // one give-up time for all blocked calls of this configuration
			for _, c := range blocked {
				select {
				case err := <-c.done:
					if err == nil {
						fail("success-without-message", c.name+" blocked during Close returned nil without a message", w)
					}
				case <-giveUp:
					fail("blocked-after-close", fmt.Sprintf("%s that was blocked when Close was called had not returned %v later", c.name, slack), w)
					stuck = true
				}
				if stuck {
					break
				}
			}
			if stuck {
				// the rest of this configuration would only wait on the same defect
				peer.Close()
				continue
			}
			// late calls
			for _, serve := range []bool{false, true} {
				c := start(map[bool]string{false: "late Receive", true: "late ServeAsk"}[serve], serve)
				select {
				case err := <-c.done:
					if err == nil {
						fail("success-after-close", c.name+" called after Close returned reported success", w)
					}
				case <-time.After(slack):
					fail("blocked-after-close", fmt.Sprintf("%s called after Close returned had not returned %v later", c.name, slack), w)
				}
			}
			// traffic after Close must not reach a callback (a late receiver is waiting for it)
			late := start("late Receive 2", false)
			ctx, cf := context.WithTimeout(bg, 2*time.Second)
			peer.Tell(ctx, 0, p2p.IOVec{[]byte("told-after-close-1")})
			cf()
			select {
			case <-late.done:
			case <-time.After(slack):
			}
			mu.Lock()
			if len(afterClose) > 0 {
				fail("delivery-after-close", fmt.Sprintf("a message told after Close had returned reached a callback: %v", afterClose), w)
			}
			mu.Unlock()
			// repeated Close
			func() {
				defer func() {
					if r := recover(); r != nil {
						fail("second-close-panics", fmt.Sprint("second Close panicked: ", r), w)
					}
				}()
				target.Close()
			}()
			peer.Close()
			// goroutines of the closed swarms
			deadline := time.Now().Add(slack)
			var left map[string]int
			for {
				left = map[string]int{}
				for fn, n := range repoGoroutines() {
					if n > base[fn] {
						left[fn] = n - base[fn]
					}
				}
				if len(left) == 0 || time.Now().After(deadline) {
					break
				}
				time.Sleep(100 * time.Millisecond)
			}
			if len(left) > 0 {
				var fns []string
				for fn, n := range left {
					fns = append(fns, fmt.Sprintf("%s x%d", fn, n))
				}
				sort.Strings(fns)
				fail("goroutine-leak", fmt.Sprintf("%v after both swarms were closed, goroutines started by them are still alive: %s", slack, strings.Join(fns, ", ")), w)
			}
		}
	}
	return cases
}

func main() {
	flag.Parse() // -tier is registered by package evid (imported through netrows)
	log.SetOutput(io.Discard)
	em := netrows.NewEmitter()
	total := 0
	for _, k := range netstacks.Kinds {
		em.Watch(k, "the rows of this stack", 3*time.Minute)
		n := rows(em, k)
		total += n
		em.Sample(map[string]any{"stack": k, "cases": n})
	}
	em.Watch("", "", 0)
	em.Stats(map[string]int{"evaluations": total, "stacks": len(netstacks.Kinds)})
}
