// c09net: free-running rows of C09 for sshswarm and quicswarm: for the payload lengths
// 0, 1, MTU-1, MTU (must be accepted and arrive complete) and MTU+1, MTU+2 (must be refused
// with the MTU error and never arrive, whole or in part), by Tell and by Ask, on loopback.
package main

import (
	"bytes"
	"context"
	"flag"
	"fmt"
	"io"
	"log"
	"sync"
	"time"

	"go.brendoncarroll.net/p2p"

	"verifmc/netrows"
	"verifmc/netstacks"
	"verifmc/stacks"
)

const slack = 30 * time.Second

func gen(l int) []byte {
	p := make([]byte, l)
	for i := range p {
		p[i] = byte(i*7 + l)
	}
	return p
}

func rows(em *netrows.Emitter, kind string) (cases int) {
	fail := func(k, detail string, w any) { em.Violation(k, kind, kind+": "+detail, w) }
	st, err := netstacks.Build(kind, 2)
	if err != nil {
		em.Note(kind + ": cannot build: " + err.Error())
		return 0
	}
	defer func() {
		for _, n := range st.Nodes {
			n.Close()
		}
	}()
	src, dst := st.Nodes[0], st.Nodes[1]
	mtu := src.MTU()
	bg, cancel := context.WithCancel(context.Background())
	defer cancel()
	var mu sync.Mutex
	var got [][]byte
	arrived := make(chan struct{}, 64)
	record := func(p []byte) {
		mu.Lock()
		got = append(got, append([]byte{}, p...))
		mu.Unlock()
		arrived <- struct{}{}
	}
	go func() {
		for dst.Receive(bg, func(m stacks.Msg) { record(m.Payload) }) == nil {
		}
	}()
	go func() {
		for dst.ServeAsk(bg, func(_ context.Context, resp []byte, m stacks.Msg) int { record(m.Payload); return copy(resp, "ok") }) == nil {
		}
	}()
	for _, mode := range []string{"tell", "ask"} {
		for _, l := range []int{0, 1, mtu - 1, mtu, mtu + 1, mtu + 2} {
			cases++
			w := map[string]any{"stack": kind, "mtu": mtu, "len": l, "mode": mode}
			mu.Lock()
			got = nil
			mu.Unlock()
			for len(arrived) > 0 {
				<-arrived
			}
			p := gen(l)
			ctx, cf := context.WithTimeout(bg, slack)
			var err error
			if mode == "tell" {
				err = src.Tell(ctx, 1, p2p.IOVec{p})
			} else {
				_, err = src.Ask(ctx, make([]byte, 8), 1, p2p.IOVec{p})
			}
			cf()
			if l <= mtu {
				if p2p.IsErrMTUExceeded(err) {
					fail("rejected-below-mtu", fmt.Sprintf("MTU()=%d but a %s of %d bytes is refused for size: %v", mtu, mode, l, err), w)
					continue
				}
				if err != nil {
					fail("failed-below-mtu", fmt.Sprintf("MTU()=%d, a %s of %d bytes failed: %v", mtu, mode, l, err), w)
					continue
				}
				select {
				case <-arrived:
				case <-time.After(slack):
					fail("not-delivered-below-mtu", fmt.Sprintf("MTU()=%d, a %s of %d bytes succeeded but nothing arrived within %v", mtu, mode, l, slack), w)
					continue
				}
				mu.Lock()
				if len(got) != 1 || !bytes.Equal(got[0], p) {
					gl := -1
					if len(got) > 0 {
						gl = len(got[0])
					}
					fail("delivered-incomplete", fmt.Sprintf("a %s of %d bytes arrived as %d message(s), first of %d bytes", mode, l, len(got), gl), w)
				}
				mu.Unlock()
			} else {
				if err == nil {
					fail("accepted-above-mtu", fmt.Sprintf("MTU()=%d but a %s of %d bytes is accepted", mtu, mode, l), w)
				} else if !p2p.IsErrMTUExceeded(err) {
					fail("wrong-error-above-mtu", fmt.Sprintf("MTU()=%d, a %s of %d bytes fails with %q instead of the MTU error", mtu, mode, l, err), w)
				}
				time.Sleep(200 * time.Millisecond) // give a wrongly sent part the chance to show up
				mu.Lock()
				if len(got) > 0 {
					fail("delivered-above-mtu", fmt.Sprintf("MTU()=%d, a %s of %d bytes was delivered (%d bytes arrived)", mtu, mode, l, len(got[0])), w)
				}
				mu.Unlock()
			}
		}
	}
	return cases
}

func main() {
	flag.Parse() // -tier is registered by package evid (imported through netrows)
	log.SetOutput(io.Discard)
	em := netrows.NewEmitter()
	total := 0
	for _, k := range netstacks.Kinds {
		em.Watch(k, "the rows of this stack", 3*time.Minute)
		n := rows(em, k)
		total += n
		em.Sample(map[string]any{"stack": k, "cases": n})
	}
	em.Watch("", "", 0)
	em.Stats(map[string]int{"evaluations": total, "stacks": len(netstacks.Kinds)})
}
