package main

import (
	"encoding/binary"
	"fmt"
	"sort"
	"strings"
	"time"

	"go.brendoncarroll.net/p2p/f/x509"
	"go.brendoncarroll.net/p2p/p/p2pke"

	"verifmc/chlab"
	"verifmc/explore"
	"verifmc/hx"
	"verifmc/pk"
	"verifmc/vrt"
)

// Channel-level part of C02: at-most-once and authenticity across session rotation with a
// replaying adversary, and uniqueness of (key,counter) under concurrent Send.

type chResult struct {
	lab      *chlab.Lab
	a, b     *chlab.Node
	sentA    []string
	sentB    []string
	counters map[string][]uint32 // sender -> counters of emitted data packets, in order
	ihAt     map[string][]int    // sender -> index into counters at which a new InitHello was emitted
}

var acceptAll = func(*x509.PublicKey) bool { return true }

func rotationScenario(seed uint64) *explore.Scenario {
	name := fmt.Sprintf("channel-rotation-replay-seed%d", seed)
	sc := &explore.Scenario{Name: name, PB: 0, NoCache: true, Single: true}
	sc.Setup = func(x *vrt.Exec) {
		x.MaxSteps = 2_000_000
		x.SchedDeterministic = true
		x.NoBranch = true
		x.AutoTimers = false
	}
	sc.Body = func(x *vrt.Exec) {
		s := time.Second
		lab := chlab.New(x, chlab.Timing{Rekey: 4 * s, KeepAlive: 8 * s, Reject: 6 * s, Handshake: 100 * time.Millisecond}, seed)
		defer lab.Close()
		r := &chResult{lab: lab}
		x.Data = r
		r.a = lab.NewNode("A", 0, acceptAll)
		r.b = lab.NewNode("B", 1, acceptAll)
		r.a.Peer, r.b.Peer = r.b, r.a
		var history []*chlab.Packet
		drain := func() {
			for i := 0; i < 500 && len(lab.Flight) > 0; i++ {
				p := lab.Flight[0]
				history = append(history, p)
				lab.Deliver(p, p.From.Peer, false)
			}
		}
		replayAll := func() {
			// the adversary replays everything it has ever seen, to both sides
			for _, p := range history {
				lab.Deliver(p, p.From.Peer, true)
				lab.Deliver(p, p.From, true) // and reflects it to its sender
			}
			drain()
		}
		k := 0
		for x.Now < 20*s {
			k++
			ma, mb := fmt.Sprintf("a-%d", k), fmt.Sprintf("b-%d", k)
			r.sentA, r.sentB = append(r.sentA, ma), append(r.sentB, mb)
			lab.StartSend(r.a, ma)
			drain()
			lab.StartSend(r.b, mb)
			drain()
			replayAll()
			// advance to the next timer (rekey / keep-alive / retransmission) and settle
			for i := 0; i < 3; i++ {
				if !lab.Fire() {
					break
				}
				drain()
			}
			replayAll()
			if when, ok := x.NextTimer(); !ok || when > 30*s {
				x.Advance(time.Second)
			}
		}
	}
	sc.Check = func(x *vrt.Exec) []explore.Finding {
		r := x.Data.(*chResult)
		var fs []explore.Finding
		add := func(kind, detail string) {
			fs = append(fs, explore.Finding{Kind: kind, Site: "Channel", Detail: detail})
		}
		if x.HorizonHit {
			add("step-horizon", "did not finish")
			return fs
		}
		check := func(who string, got []string, legit []string) {
			ok := map[string]bool{}
			for _, l := range legit {
				ok[l] = true
			}
			count := map[string]int{}
			for _, g := range got {
				count[g]++
				if !ok[g] {
					add("unauthentic-plaintext", fmt.Sprintf("%s delivered %q which its peer never sent", who, g))
				}
			}
			var ks []string
			for k := range count {
				ks = append(ks, k)
			}
			sort.Strings(ks)
			for _, k := range ks {
				if count[k] > 1 {
					add("delivered-twice-across-rotation", fmt.Sprintf("%s delivered %q %d times (replayed ciphertexts after session rotation)", who, k, count[k]))
				}
			}
		}
		check("B", r.b.Received, r.sentA)
		check("A", r.a.Received, r.sentB)
		for _, n := range []*chlab.Node{r.a, r.b} {
			if ch := n.ChangedAfterDelivery(); len(ch) > 0 {
				add("plaintext-changed-after-delivery", fmt.Sprintf("%s: %d plaintexts handed out by Channel.Deliver changed afterwards, e.g. %s", n.Name, len(ch), ch[0]))
			}
		}
		if r.a.InitHellos+r.b.InitHellos < 2 {
			add("vacuous", "no session rotation happened in this run")
		}
		return fs
	}
	sc.Outcome = func(x *vrt.Exec) string {
		r := x.Data.(*chResult)
		return fmt.Sprintf("rotations(IH)=%d recvB=%d recvA=%d", r.a.InitHellos+r.b.InitHellos, len(r.b.Received), len(r.a.Received))
	}
	return sc
}

func concurrentSendScenario(pb int) *explore.Scenario {
	sc := &explore.Scenario{Name: "channel-concurrent-send", PB: pb}
	sc.Setup = func(x *vrt.Exec) {
		x.MaxSteps = 200000
		x.AutoTimers = false
	}
	sc.Body = func(x *vrt.Exec) {
		lab := chlab.New(x, chlab.Timing{}, 5)
		defer lab.Close()
		r := &chResult{lab: lab}
		x.Data = r
		r.a = lab.NewNode("A", 0, acceptAll)
		r.b = lab.NewNode("B", 1, acceptAll)
		r.a.Peer, r.b.Peer = r.b, r.a
		// establish deterministically
		x.NoBranch = true
		lab.StartSend(r.a, "hello")
		lab.FairSuffix(10*time.Second, func() bool { return r.a.SendReturned > 0 && len(lab.Flight) == 0 })
		x.NoBranch = false
		// two concurrent Sends on the established session: every interleaving within the bound
		n0 := len(lab.Flight)
		_ = n0
		done := 0
		for i := 0; i < 2; i++ {
			i := i
			vrt.Go("sender", func() {
				lab.SendNow(r.a, fmt.Sprintf("concurrent-%d", i))
				lab.Cell.Touch()
				done++
			})
		}
		x.Yield(func() bool { return done == 2 }, "wait for both sends")
		x.NoBranch = true
		for len(lab.Flight) > 0 {
			p := lab.Flight[0]
			if p.Kind == "DATA" && p.From == r.a && len(p.Data) >= 4 {
				r.counters = map[string][]uint32{"A": append(r.counters["A"], binary.BigEndian.Uint32(p.Data[:4]))}
			}
			lab.Deliver(p, p.From.Peer, false)
		}
	}
	sc.Check = func(x *vrt.Exec) []explore.Finding {
		r := x.Data.(*chResult)
		var fs []explore.Finding
		if x.HorizonHit {
			return []explore.Finding{{Kind: "step-horizon", Site: "Channel", Detail: "did not finish"}}
		}
		seen := map[uint32]bool{}
		for _, c := range r.counters["A"] {
			if seen[c] {
				fs = append(fs, explore.Finding{Kind: "nonce-reuse", Site: "Session.Send", Detail: fmt.Sprintf("two concurrent Sends produced ciphertexts under the same counter %d", c)})
			}
			seen[c] = true
		}
		got := strings.Join(r.b.Received, ",")
		for i := 0; i < 2; i++ {
			if !strings.Contains(got, fmt.Sprintf("concurrent-%d", i)) {
				fs = append(fs, explore.Finding{Kind: "concurrent-send-lost", Site: "Channel", Detail: fmt.Sprintf("message concurrent-%d sent over a reliable transport was not delivered (received: %s)", i, got)})
			}
		}
		return fs
	}
	sc.Outcome = func(x *vrt.Exec) string {
		r := x.Data.(*chResult)
		return fmt.Sprintf("counters=%v delivered=%d", r.counters["A"], len(r.b.Received))
	}
	return sc
}

// sessionConcurrentSendScenario: n threads call Session.Send on one established session; every
// interleaving of the counter allocation within the preemption bound. The responder then
// receives every ciphertext (in emission order): all must decrypt to what was sent, once.
func sessionConcurrentSendScenario(n, pb int) *explore.Scenario {
	type res struct {
		counters []uint32
		got      []string
		errs     []string
	}
	sc := &explore.Scenario{Name: fmt.Sprintf("session-concurrent-send-%dthreads", n), PB: pb}
	sc.Setup = func(x *vrt.Exec) {
		x.MaxSteps = 200000
		x.AutoTimers = false
	}
	sc.Body = func(x *vrt.Exec) {
		r := &res{}
		x.Data = r
		cell := &hx.Cell{}
		mk := func(key int, init bool) *p2pke.Session {
			return p2pke.NewSession(p2pke.SessionConfig{Registry: x509.DefaultRegistry(), PrivateKey: pk.Key(key), IsInit: init, Now: t0, RejectAfter: time.Hour, Logger: pk.Nop})
		}
		x.NoBranch = true
		a, b := mk(0, true), mk(1, false)
		m := a.Handshake(nil)
		for i, s := 0, b; i < 4 && len(m) > 0; i++ {
			_, out, err := s.Deliver(nil, m, t0)
			if err != nil {
				panic(err)
			}
			m = append([]byte{}, out...)
			if s == b {
				s = a
			} else {
				s = b
			}
		}
		x.NoBranch = false
		var wire [][]byte
		done := 0
		for i := 0; i < n; i++ {
			i := i
			vrt.Go("sender", func() {
				out, err := a.Send(nil, []byte(fmt.Sprintf("concurrent-%d", i)), t0)
				cell.Touch()
				if err != nil {
					r.errs = append(r.errs, err.Error())
				} else {
					wire = append(wire, out)
				}
				done++
			})
		}
		x.Yield(func() bool { return done == n }, "wait for the senders")
		x.NoBranch = true
		for _, c := range wire {
			r.counters = append(r.counters, binary.BigEndian.Uint32(c[:4]))
			isApp, out, err := b.Deliver(nil, c, t0)
			if err == nil && isApp {
				r.got = append(r.got, string(out))
			}
		}
	}
	sc.Check = func(x *vrt.Exec) []explore.Finding {
		r := x.Data.(*res)
		if x.HorizonHit {
			return []explore.Finding{{Kind: "step-horizon", Site: "Session.Send", Detail: "did not finish"}}
		}
		var fs []explore.Finding
		seen := map[uint32]bool{}
		for _, c := range r.counters {
			if seen[c] {
				fs = append(fs, explore.Finding{Kind: "nonce-reuse", Site: "Session.Send", Detail: fmt.Sprintf("two concurrent Sends produced ciphertexts under the same key and counter %d (counters %v)", c, r.counters)})
			}
			seen[c] = true
		}
		if len(r.errs) == 0 && len(r.got) != n && len(fs) == 0 {
			fs = append(fs, explore.Finding{Kind: "concurrent-send-lost", Site: "Session.Send", Detail: fmt.Sprintf("%d Sends succeeded, the peer accepted %v", n, r.got)})
		}
		return fs
	}
	sc.Outcome = func(x *vrt.Exec) string {
		r := x.Data.(*res)
		return fmt.Sprintf("counters=%v delivered=%d", r.counters, len(r.got))
	}
	return sc
}
