package main

import (
	"fmt"
	"strings"
	"time"

	"github.com/flynn/noise"
	"google.golang.org/protobuf/proto"

	"go.brendoncarroll.net/p2p/f/x509"
	"go.brendoncarroll.net/p2p/p/p2pke"

	"verifmc/chlab"
	"verifmc/explore"
	"verifmc/pk"
	"verifmc/vrt"
)

// Active attacker part of C02: an adversary without any signing key runs its own Noise NN
// exchange (own ephemeral key), splices signed fields it saw on the wire into its messages and
// injects ciphertexts made with the keys it derived. Nothing it makes may ever come out of an
// honest Session or Channel as application data.

type splice struct {
	name        string
	key, ts, sg []byte
}

// atkInit is the attacker's hand-written initiator.
type atkInit struct {
	hs      *noise.HandshakeState
	out     noise.Cipher
	respSig []byte
}

func (c *atkInit) initHello(cl splice) []byte {
	hs, err := noise.NewHandshakeState(noise.Config{Initiator: true, Pattern: noise.HandshakeNN, CipherSuite: p2pke.VerifCipherSuite()})
	if err != nil {
		panic(err)
	}
	c.hs, c.out = hs, nil
	body, _ := proto.Marshal(&p2pke.InitHello{Version: 1, TimestampTai64N: cl.ts, KeyX509: cl.key, Sig: cl.sg})
	body = append(body, byte(len(body)>>8), byte(len(body)))
	msg, _, _, err := c.hs.WriteMessage([]byte{0, 0, 0, 0}, body)
	if err != nil {
		panic(err)
	}
	return msg
}

func (c *atkInit) readRespHello(m []byte) bool {
	if c.hs == nil || c.out != nil || len(m) < 4 {
		return false
	}
	payload, cs1, _, err := c.hs.ReadMessage(nil, m[4:])
	if err != nil || cs1 == nil {
		return false
	}
	var rh p2pke.RespHello
	if proto.Unmarshal(payload, &rh) == nil {
		c.respSig = rh.Sig
	}
	c.out = cs1.Cipher()
	return true
}

func (c *atkInit) sealed(counter uint32, pt []byte) []byte {
	h := []byte{byte(counter >> 24), byte(counter >> 16), byte(counter >> 8), byte(counter)}
	return c.out.Encrypt(h, uint64(counter), h, pt)
}

func (c *atkInit) initDone(sig []byte) []byte {
	body, _ := proto.Marshal(&p2pke.InitDone{Sig: sig})
	return c.sealed(2, body)
}

func spliceOf(ih []byte) (splice, bool) {
	m, err := p2pke.ParseMessage(ih)
	if err != nil {
		return splice{}, false
	}
	x, err := m.GetInitHello()
	if err != nil {
		return splice{}, false
	}
	return splice{name: "claim-of-a", key: x.KeyX509, ts: x.TimestampTai64N, sg: x.Sig}, true
}

const attackerText = "attacker-made plaintext"

type atkResult struct {
	trace    []string
	received []string // application plaintexts the honest responder handed out
	legit    map[string]bool
	crafted  int
}

// attackerSessionScenario: honest initiator session A (key a), honest responder session B
// (key b); the adversary relays A's and B's messages or injects its own.
func attackerSessionScenario(depth int) *explore.Scenario {
	sc := &explore.Scenario{Name: fmt.Sprintf("attacker-vs-session-depth%d", depth), PB: 0, DB: 0, NoCache: true}
	sc.Setup = func(x *vrt.Exec) {
		x.MaxSteps = 200000
		x.SchedDeterministic = true
		x.AutoTimers = false
	}
	sc.Body = func(x *vrt.Exec) {
		r := &atkResult{legit: map[string]bool{}}
		x.Data = r
		mk := func(key int, init bool) *p2pke.Session {
			return p2pke.NewSession(p2pke.SessionConfig{Registry: x509.DefaultRegistry(), PrivateKey: pk.Key(key), IsInit: init, Now: t0, RejectAfter: time.Hour, Logger: pk.Nop})
		}
		a, b := mk(0, true), mk(1, false)
		ihA := a.Handshake(nil)
		cl, _ := spliceOf(ihA)
		wire := map[string][]byte{"A:IH": append([]byte{}, ihA...)}
		atk := &atkInit{}
		toB := func(m []byte, what string) []byte {
			r.trace = append(r.trace, what+" -> B")
			isApp, out, err := b.Deliver(nil, m, t0)
			if err != nil {
				return nil
			}
			if isApp {
				r.received = append(r.received, string(out))
				return nil
			}
			return append([]byte{}, out...)
		}
		toA := func(m []byte, what string) []byte {
			r.trace = append(r.trace, what+" -> A")
			isApp, out, err := a.Deliver(nil, m, t0)
			if err != nil || isApp {
				return nil
			}
			return append([]byte{}, out...)
		}
		sent := 0
		for step := 0; step < depth; step++ {
			type act struct {
				name string
				do   func()
			}
			var menu []act
			for _, k := range []string{"A:IH", "A:ID", "A:D0"} {
				if m, ok := wire[k]; ok {
					k, m := k, m
					menu = append(menu, act{"relay " + k, func() {
						if out := toB(m, k); len(out) >= 4 {
							wire["B:"+kindName(counterOf(out))] = out
						}
					}})
				}
			}
			for _, k := range []string{"B:RH", "B:RD"} {
				if m, ok := wire[k]; ok {
					k, m := k, m
					menu = append(menu, act{"relay " + k, func() {
						if out := toA(m, k); len(out) >= 4 {
							wire["A:"+kindName(counterOf(out))] = out
						}
					}})
				}
			}
			if sent == 0 {
				menu = append(menu, act{"A sends", func() {
					out, err := a.Send(nil, []byte("from-a"), t0)
					r.trace = append(r.trace, fmt.Sprintf("A.Send err=%v", err))
					if err == nil {
						sent++
						r.legit["from-a"] = true
						wire["A:D0"] = append([]byte{}, out...)
					}
				}})
			}
			menu = append(menu, act{"crafted InitHello(" + cl.name + ")", func() {
				r.crafted++
				if out := toB(atk.initHello(cl), "crafted InitHello("+cl.name+")"); len(out) >= 4 {
					if atk.readRespHello(out) {
						r.trace = append(r.trace, "attacker derived the transport keys from B's RespHello")
					}
				}
			}})
			if atk.out != nil {
				for _, sg := range []splice{{name: "sig-from-a's-InitHello", sg: cl.sg}, {name: "sig-from-b's-RespHello", sg: atk.respSig}} {
					sg := sg
					menu = append(menu, act{"crafted InitDone(" + sg.name + ")", func() {
						r.crafted++
						toB(atk.initDone(sg.sg), "crafted InitDone("+sg.name+")")
					}})
				}
				for _, ctr := range []uint32{16, 17} {
					ctr := ctr
					menu = append(menu, act{fmt.Sprintf("crafted data(%d)", ctr), func() {
						r.crafted++
						toB(atk.sealed(ctr, []byte(attackerText)), fmt.Sprintf("crafted data(%d)", ctr))
					}})
				}
			}
			k := x.Choose(len(menu)+1, nil, "adversary")
			if k == 0 {
				break
			}
			menu[k-1].do()
		}
	}
	sc.Check = atkCheck("Session.Deliver")
	sc.Outcome = atkOutcome
	return sc
}

func atkCheck(site string) func(x *vrt.Exec) []explore.Finding {
	return func(x *vrt.Exec) []explore.Finding {
		r := x.Data.(*atkResult)
		if x.HorizonHit {
			return []explore.Finding{{Kind: "step-horizon", Site: site, Detail: "did not finish"}}
		}
		var fs []explore.Finding
		for _, g := range r.received {
			if !r.legit[g] {
				fs = append(fs, explore.Finding{Kind: "unauthentic-plaintext", Site: site, Detail: fmt.Sprintf("B handed %q to the application, which key a never gave to Send; script: %s", g, strings.Join(r.trace, "; "))})
			}
		}
		return fs
	}
}

func atkOutcome(x *vrt.Exec) string {
	r := x.Data.(*atkResult)
	return fmt.Sprintf("crafted=%d delivered=%d", r.crafted, len(r.received))
}

// attackerChannelScenario: honest channel A (key a) and honest channel B that accepts only
// key a; same adversary, Channel API.
func attackerChannelScenario(depth int) *explore.Scenario {
	sc := &explore.Scenario{Name: fmt.Sprintf("attacker-vs-channel-depth%d", depth), PB: 0, DB: 0, NoCache: true}
	sc.Setup = func(x *vrt.Exec) {
		x.MaxSteps = 200000
		x.SchedDeterministic = true
		x.AutoTimers = false
	}
	sc.Body = func(x *vrt.Exec) {
		lab := chlab.New(x, chlab.Timing{}, 3)
		defer lab.Close()
		r := &atkResult{legit: map[string]bool{}}
		x.Data = r
		defer func() { r.trace = lab.Trace }()
		onlyA := func(k *x509.PublicKey) bool { return chlab.KeyName(*k) == "a" }
		a := lab.NewNode("A", 0, acceptAll)
		b := lab.NewNode("B", 1, onlyA)
		a.Peer, b.Peer = b, a
		defer func() { r.received = b.Received }()
		atk := &atkInit{}
		var cl *splice
		started := false
		for step := 0; step < depth; step++ {
			type act struct {
				name string
				do   func()
			}
			var menu []act
			if !started {
				menu = append(menu, act{"A sends", func() {
					started = true
					r.legit["from-a"] = true
					lab.StartSend(a, "from-a")
				}})
			}
			for _, p := range lab.Flight {
				p := p
				if p.Kind == "IH" && p.From == a && cl == nil {
					if c, ok := spliceOf(p.Data); ok {
						cl = &c
					}
				}
				menu = append(menu, act{"deliver", func() { lab.Deliver(p, p.From.Peer, false) }})
			}
			if cl != nil {
				menu = append(menu, act{"crafted InitHello", func() {
					r.crafted++
					for _, q := range lab.Inject(b, atk.initHello(*cl), "crafted InitHello("+cl.name+")") {
						if q.Kind == "RH" && atk.readRespHello(q.Data) {
							lab.Trace = append(lab.Trace, "attacker derived the transport keys from B's RespHello")
						}
					}
				}})
			}
			if atk.out != nil {
				menu = append(menu, act{"crafted InitDone", func() {
					r.crafted++
					lab.Inject(b, atk.initDone(cl.sg), "crafted InitDone(sig-from-a's-InitHello)")
				}})
				menu = append(menu, act{"crafted data", func() {
					r.crafted++
					lab.Inject(b, atk.sealed(16, []byte(attackerText)), "crafted data(16)")
				}})
			}
			k := x.Choose(len(menu)+1, nil, "adversary")
			if k == 0 {
				break
			}
			menu[k-1].do()
		}
	}
	sc.Check = atkCheck("Channel.Deliver")
	sc.Outcome = atkOutcome
	return sc
}
