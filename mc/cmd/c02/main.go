// C02 (session level): the secure channel delivers only authentic peer plaintexts, at
// most once; no (key,counter) pair is ever used twice; no plaintext on the transport.
// Explicit-state BFS: adversary closure over real Session objects of an honest pair and an
// unrelated pair holding the same long-term keys.
package main

import (
	"bytes"
	"fmt"
	"os"
	"sort"
	"strings"
	"time"

	"go.brendoncarroll.net/p2p/f/x509"
	"go.brendoncarroll.net/p2p/p/p2pke"

	"verifmc/evid"
	"verifmc/explore"
	"verifmc/pk"
	"verifmc/seqmc"
)

var run *evid.Run
var t0 = time.Unix(1_700_000_000, 0)

const rejectAfter = 180 * time.Second

type poolMsg struct {
	id     string // <session>:<kind>  e.g. "I:IH", "R:RH", "I:D0"
	data   []byte
	origin int
}

type violation struct{ kind, site, detail string }

type universe struct {
	sessions int // 2: honest pair; 4: plus unrelated pair with the same keys
	maxSend  int
	mutate   bool
	limit    bool // counter-limit scenario: setCounter actions
	name     string
}

var sessNames = []string{"I", "R", "I'", "R'"}

type world struct {
	u       universe
	s       []*p2pke.Session
	pool    []poolMsg
	sent    []int
	got     []map[string]bool // per session: payload ids delivered as app data
	emitted map[string][]byte // (session,counter) -> ciphertext bytes produced under the send cipher
	now     time.Time
	expired bool
	bumped  []bool
}

func newWorld(u universe) *world {
	w := &world{u: u, now: t0, emitted: map[string][]byte{}}
	for i := 0; i < u.sessions; i++ {
		// sessions 0/2 are initiators with key 0, 1/3 responders with key 1
		w.s = append(w.s, p2pke.NewSession(p2pke.SessionConfig{Registry: x509.DefaultRegistry(), PrivateKey: pk.Key(i % 2), IsInit: i%2 == 0, Now: t0, RejectAfter: rejectAfter, Logger: pk.Nop}))
		w.got = append(w.got, map[string]bool{})
		w.sent = append(w.sent, 0)
		w.bumped = append(w.bumped, false)
	}
	for i := 0; i < u.sessions; i += 2 {
		w.emit(i, w.s[i].Handshake(nil))
	}
	return w
}

func counterOf(m []byte) uint32 {
	return uint32(m[0])<<24 | uint32(m[1])<<16 | uint32(m[2])<<8 | uint32(m[3])
}

func kindName(c uint32) string {
	switch c {
	case 0:
		return "IH"
	case 1:
		return "RH"
	case 2:
		return "ID"
	case 3:
		return "RD"
	}
	return fmt.Sprintf("C%d", c)
}

const marker = "SECRET-PLAINTEXT-"

func payload(sess, k int) []byte { return []byte(fmt.Sprintf("%s%s-%d", marker, sessNames[sess], k)) }

// emit registers a message produced by session i (oracle clauses b and c) and pools it.
func (w *world) emit(i int, m []byte) {
	if len(m) < 4 {
		return
	}
	if bytes.Contains(m, []byte(marker)) {
		panic(violation{"plaintext-on-transport", "Session", fmt.Sprintf("a message emitted by %s contains application plaintext", sessNames[i])})
	}
	c := counterOf(m)
	if c >= 2 {
		// produced under the symmetric send cipher: (session, counter) must be unique
		k := fmt.Sprintf("%s/%d", sessNames[i], c)
		if old, ok := w.emitted[k]; ok && !bytes.Equal(old, m) {
			panic(violation{"nonce-reuse", "Session.Send", fmt.Sprintf("%s produced two different ciphertexts under counter %d", sessNames[i], c)})
		}
		w.emitted[k] = append([]byte{}, m...)
	}
	id := sessNames[i] + ":" + kindName(c)
	for _, p := range w.pool {
		if p.id == id {
			return
		}
	}
	w.pool = append(w.pool, poolMsg{id: id, data: append([]byte{}, m...), origin: i})
	sort.Slice(w.pool, func(a, b int) bool { return w.pool[a].id < w.pool[b].id })
}

type mutation struct {
	name string
	f    func(m []byte, other []byte) []byte
}

var mutations = []mutation{
	{"flip-counter-bit", func(m, _ []byte) []byte { x := append([]byte{}, m...); x[3] ^= 1; return x }},
	{"counter+16", func(m, _ []byte) []byte { x := append([]byte{}, m...); x[3] += 16; return x }},
	{"flip-body-bit", func(m, _ []byte) []byte {
		x := append([]byte{}, m...)
		if len(x) > 4 {
			x[4] ^= 0x80
		}
		return x
	}},
	{"flip-tag-bit", func(m, _ []byte) []byte { x := append([]byte{}, m...); x[len(x)-1] ^= 1; return x }},
	{"truncate-1", func(m, _ []byte) []byte { return append([]byte{}, m[:len(m)-1]...) }},
	{"header-only", func(m, _ []byte) []byte { return append([]byte{}, m[:4]...) }},
	{"append-byte", func(m, _ []byte) []byte { return append(append([]byte{}, m...), 0x00) }},
	{"splice-header", func(m, o []byte) []byte {
		if len(o) < 4 {
			return nil
		}
		return append(append([]byte{}, m[:4]...), o[4:]...)
	}},
}

type action struct {
	kind string // deliver, mutated, send, expire, bump
	sess int
	msg  string
	mut  int
	oth  string
}

func (a action) String() string {
	switch a.kind {
	case "deliver":
		return fmt.Sprintf("deliver(%s<-%s)", sessNames[a.sess], a.msg)
	case "mutated":
		if a.oth != "" {
			return fmt.Sprintf("deliver(%s<-%s(%s,%s))", sessNames[a.sess], mutations[a.mut].name, a.msg, a.oth)
		}
		return fmt.Sprintf("deliver(%s<-%s(%s))", sessNames[a.sess], mutations[a.mut].name, a.msg)
	case "send":
		return fmt.Sprintf("send(%s)", sessNames[a.sess])
	case "bump":
		return fmt.Sprintf("setCounter(%s,MaxNonce-2)", sessNames[a.sess])
	}
	return a.kind
}

func alphabet(u universe) []action {
	var ids []string
	for i := 0; i < u.sessions; i++ {
		hs := []string{"IH", "ID"}
		if i%2 == 1 {
			hs = []string{"RH", "RD"}
		}
		for _, k := range hs {
			ids = append(ids, sessNames[i]+":"+k)
		}
		for k := 0; k < u.maxSend; k++ {
			ids = append(ids, fmt.Sprintf("%s:C%d", sessNames[i], 16+k))
		}
		if u.limit {
			ids = append(ids, fmt.Sprintf("%s:C%d", sessNames[i], uint32(p2pke.MaxNonce-2)), fmt.Sprintf("%s:C%d", sessNames[i], uint32(p2pke.MaxNonce-1)), fmt.Sprintf("%s:C%d", sessNames[i], uint32(p2pke.MaxNonce)))
		}
	}
	var as []action
	for i := 0; i < u.sessions; i++ {
		as = append(as, action{kind: "send", sess: i})
	}
	for i := 0; i < u.sessions; i++ {
		for _, id := range ids {
			as = append(as, action{kind: "deliver", sess: i, msg: id})
		}
	}
	as = append(as, action{kind: "expire"})
	if u.limit {
		for i := 0; i < 2; i++ {
			as = append(as, action{kind: "bump", sess: i})
		}
	}
	if u.mutate {
		for i := 0; i < 2; i++ { // mutated traffic is aimed at the honest pair
			for _, id := range ids {
				for mi, m := range mutations {
					if m.name == "splice-header" {
						for _, o := range ids {
							if o != id && strings.Contains(o, ":C") && strings.Contains(id, ":C") {
								as = append(as, action{kind: "mutated", sess: i, msg: id, mut: mi, oth: o})
							}
						}
						continue
					}
					as = append(as, action{kind: "mutated", sess: i, msg: id, mut: mi})
				}
			}
		}
	}
	return as
}

func (w *world) find(id string) *poolMsg {
	for i := range w.pool {
		if w.pool[i].id == id {
			return &w.pool[i]
		}
	}
	return nil
}

// deliver feeds bytes to session i and applies oracle clause (a).
func (w *world) deliver(i int, data []byte, what string) {
	isApp, out, err := w.s[i].Deliver(nil, data, w.now)
	if w.expired && err == nil && (isApp || len(out) > 0) {
		panic(violation{"expired-session-still-works", "Session.Deliver", fmt.Sprintf("%s processed %s after its RejectAfter time", sessNames[i], what)})
	}
	if err != nil {
		return
	}
	if isApp {
		// the peer of a session is the session of the opposite role that shares its
		// handshake transcript (channel binding), whichever pair it was created in
		peer := -1
		for j := range w.s {
			if j != i && j%2 != i%2 && bytes.Equal(w.s[j].VerifBinding(), w.s[i].VerifBinding()) {
				peer = j
			}
		}
		if peer < 0 || !w.wasSent(peer, out) {
			pn := "nobody (no session shares its transcript)"
			if peer >= 0 {
				pn = sessNames[peer]
			}
			panic(violation{"unauthentic-plaintext", "Session.Deliver", fmt.Sprintf("%s accepted %q from %s, which its peer %s never sent on this session", sessNames[i], out, what, pn)})
		}
		if w.got[i][string(out)] {
			panic(violation{"delivered-twice", "Session.Deliver", fmt.Sprintf("%s delivered %q a second time (from %s)", sessNames[i], out, what)})
		}
		w.got[i][string(out)] = true
		return
	}
	if len(out) > 0 {
		w.emit(i, out)
	}
}

func (w *world) wasSent(sess int, p []byte) bool {
	for k := 0; k < w.sent[sess]; k++ {
		if bytes.Equal(p, payload(sess, k)) {
			return true
		}
	}
	return false
}

func (w *world) apply(a action) bool {
	switch a.kind {
	case "send":
		if w.sent[a.sess] >= w.u.maxSend {
			return false
		}
		out, err := w.s[a.sess].Send(nil, payload(a.sess, w.sent[a.sess]), w.now)
		if err != nil {
			if w.expired || w.bumped[a.sess] {
				return w.bumped[a.sess] && !w.expired && false
			}
			return false
		}
		if w.expired {
			panic(violation{"expired-session-still-works", "Session.Send", fmt.Sprintf("%s encrypted after its RejectAfter time", sessNames[a.sess])})
		}
		if c := counterOf(out); uint64(c) >= p2pke.MaxNonce || c < 16 {
			panic(violation{"counter-out-of-range", "Session.Send", fmt.Sprintf("%s sent application data under counter %d", sessNames[a.sess], c)})
		}
		w.sent[a.sess]++
		w.emit(a.sess, out)
	case "deliver":
		p := w.find(a.msg)
		if p == nil {
			return false
		}
		w.deliver(a.sess, p.data, a.msg)
	case "mutated":
		p := w.find(a.msg)
		if p == nil {
			return false
		}
		var other []byte
		if a.oth != "" {
			o := w.find(a.oth)
			if o == nil {
				return false
			}
			other = o.data
		}
		m := mutations[a.mut].f(p.data, other)
		if m == nil || bytes.Equal(m, p.data) {
			return false
		}
		w.deliver(a.sess, m, a.String())
	case "expire":
		if w.expired {
			return false
		}
		w.expired = true
		w.now = t0.Add(rejectAfter + time.Second)
	case "bump":
		if w.bumped[a.sess] || !w.s[a.sess].IsReady() {
			return false
		}
		w.bumped[a.sess] = true
		w.s[a.sess].VerifSetNonce(p2pke.MaxNonce - 2)
	}
	return true
}

func (w *world) key() string {
	sb := strings.Builder{}
	for i, s := range w.s {
		var g []string
		for k := range w.got[i] {
			g = append(g, k[len(marker):])
		}
		sort.Strings(g)
		fmt.Fprintf(&sb, "%s:%d/%d/%d/%v;", sessNames[i], s.VerifHsIndex(), s.VerifNonce(), w.sent[i], g)
	}
	var ids []string
	for _, p := range w.pool {
		ids = append(ids, p.id)
	}
	fmt.Fprintf(&sb, "pool=%s exp=%v", strings.Join(ids, ","), w.expired)
	return sb.String()
}

func exploreUniverse(u universe, maxDepth, maxStates int) {
	acts := alphabet(u)
	names := func(path []int) []string {
		var out []string
		for _, p := range path {
			out = append(out, acts[p].String())
		}
		return out
	}
	step := func(path []int) (key string, ok bool, stop bool) {
		var v *violation
		func() {
			defer func() {
				if r := recover(); r != nil {
					if vv, isV := r.(violation); isV {
						v = &vv
					} else {
						v = &violation{"panic", "Session", fmt.Sprintf("panic: %v", r)}
					}
				}
			}()
			w := newWorld(u)
			for _, ai := range path {
				if !w.apply(acts[ai]) {
					return
				}
			}
			key, ok = w.key(), true
		}()
		if v != nil {
			run.Violate(evid.Violation{Kind: v.kind, Site: v.site, Detail: v.detail, Witness: map[string]any{"universe": u.name, "actions": names(path)}})
			return "VIOL" + fmt.Sprint(path), true, true
		}
		if !ok {
			return "", false, true
		}
		// a deviation budget: at most `devBudget` mutated deliveries per path
		dev := 0
		for _, ai := range path {
			if acts[ai].kind == "mutated" {
				dev++
			}
		}
		if dev > devBudget {
			return "", false, true
		}
		if dev > 0 {
			key += fmt.Sprintf(" dev=%d", dev)
		}
		run.Outcome(u.name + " " + strings.SplitN(key, "pool=", 2)[0])
		return key, true, false
	}
	st := seqmc.BFS(seqmc.Config{NumOps: len(acts), MaxDepth: maxDepth, MaxStates: maxStates}, step)
	fmt.Printf("  universe %-28s actions=%d states=%d transitions=%d depth=%d exhaustive=%v %s\n", u.name, len(acts), st.States, st.Transitions, st.DepthCompleted, st.Exhaustive, st.CapHit)
	run.Add("states", st.States)
	run.Add("transitions", st.Transitions)
	if !st.Exhaustive {
		allExhaustive = false
		caps = append(caps, fmt.Sprintf("%s: %s at depth %d (%d states)", u.name, st.CapHit, st.DepthCompleted, st.States))
	}
	for _, p := range st.SamplePaths {
		run.Sample(map[string]any{"universe": u.name, "actions": names(p)})
	}
}

var devBudget = 1
var allExhaustive = true
var caps []string

func channelScenarios() []*explore.Scenario {
	return []*explore.Scenario{
		rotationScenario(1), rotationScenario(2),
		concurrentSendScenario(evid.Pick(run, 2, 3)),
		sessionConcurrentSendScenario(2, evid.Pick(run, 3, 6)),
		sessionConcurrentSendScenario(3, evid.Pick(run, 2, 4)),
		attackerSessionScenario(evid.Pick(run, 6, 8)),
		attackerChannelScenario(evid.Pick(run, 7, 9)),
	}
}

func main() {
	run = evid.Start("C02", "model_checking")
	if os.Getenv("VERIF_SHARD") != "" || run.ReplayFile() != "" {
		// worker / replay mode: only the channel-level scenarios
		explore.Main(run, channelScenarios(), time.Minute)
		run.Finish()
	}
	if run.Thorough() {
		devBudget = 2
		exploreUniverse(universe{sessions: 2, maxSend: 2, name: "honest-pair"}, 60, 3000000)
		exploreUniverse(universe{sessions: 4, maxSend: 1, name: "two-pairs-same-keys"}, 60, 1500000)
		exploreUniverse(universe{sessions: 2, maxSend: 2, mutate: true, name: "honest-pair+mutations"}, 60, 1500000)
		exploreUniverse(universe{sessions: 2, maxSend: 3, limit: true, name: "counter-limit"}, 60, 1500000)
	} else {
		exploreUniverse(universe{sessions: 2, maxSend: 2, name: "honest-pair"}, 40, 300000)
		exploreUniverse(universe{sessions: 4, maxSend: 1, name: "two-pairs-same-keys"}, 14, 40000)
		exploreUniverse(universe{sessions: 2, maxSend: 2, mutate: true, name: "honest-pair+mutations"}, 14, 30000)
		exploreUniverse(universe{sessions: 2, maxSend: 3, limit: true, name: "counter-limit"}, 16, 40000)
	}
	bfsStates, bfsTrans := run.Get("states"), run.Get("transitions")
	// channel level: rotation + replay (deterministic scripts) and concurrent Send (all
	// interleavings within the preemption bound), on the instrumented code
	scs := channelScenarios()
	explore.Main(run, scs, evid.Pick(run, 60*time.Second, 10*time.Minute))
	run.Set("states", run.Get("states")+bfsStates)
	run.Set("transitions", run.Get("transitions")+bfsTrans)
	run.Set("traces_validated_against_impl", run.Get("transitions"))
	if e, ok := run.Cov["exhaustive"].(bool); ok && !e {
		allExhaustive = false
	}
	run.Set("exhaustive", allExhaustive)
	run.Set("caps_hit", caps)
	run.Set("deviation_budget", devBudget)
	run.Set("explanation", "Session level: BFS over adversary actions (deliver any pooled message to any session, mutated deliveries, send, expire, counter jump) on real Session objects; every transition re-executes the implementation; state key = per-session (handshake index, counter, sends, delivered payloads) + symbolic pool + expiry")
	run.Assume("ChaCha20-Poly1305, X25519, Ed25519 and the replay bitmap beyond the small counters exercised; channel-level rotation is covered by the Channel scenarios of C05/C07")
	run.Finish()
}
