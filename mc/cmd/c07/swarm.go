package main

import (
	"context"
	"fmt"
	"strings"
	"time"

	"go.brendoncarroll.net/p2p"
	"go.brendoncarroll.net/p2p/p/p2pke"

	"verifmc/explore"
	"verifmc/hx"
	"verifmc/stacks"
	"verifmc/vrt"
	"verifmc/vrt/vnet"
)

// Part 3: the same convergence claim one layer up: two real p2pkeswarm nodes over the real
// udpswarm on the virtual UDP network. The adversary decides the fate of each of the first
// k datagrams (deliver / drop / duplicate, deviation-bounded); afterwards the network is
// reliable. A Tell pending at that point must complete within 8 handshake retransmission
// intervals of virtual time.

type wcfg struct {
	k    int // datagrams under adversary control
	db   int
	both bool // both nodes tell at once
}

func (c wcfg) name() string {
	return fmt.Sprintf("swarm-udp-lossy-first%d-dev%d-both%v", c.k, c.db, c.both)
}

type wresult struct {
	cell       hx.Cell
	trace      []string
	lastFault  time.Duration // virtual time at which the network became reliable
	retAt      map[string]time.Duration
	retErr     map[string]string
	received   map[string][]string
	dataFaults int
}

func swarmLossScenario(c wcfg) *explore.Scenario {
	sc := &explore.Scenario{Name: c.name(), PB: 0, DB: c.db, NoCache: true}
	sc.Setup = func(x *vrt.Exec) {
		x.MaxSteps = 400000
		x.SchedDeterministic = true
		x.AutoTimers = true
		x.TimerHorizon = 20 * time.Second
		x.NumWorkers = 1
		x.Data = &wresult{retAt: map[string]time.Duration{}, retErr: map[string]string{}, received: map[string][]string{}}
	}
	sc.Body = func(x *vrt.Exec) {
		r := x.Data.(*wresult)
		seen := 0
		vnet.Of(x).Policy = func(from, to *vnet.UDPAddr, data []byte) int {
			seen++
			if seen > c.k {
				return 1
			}
			kind := "hs"
			if len(data) >= 4 && (data[0] != 0 || data[1] != 0 || data[2] != 0 || data[3] > 3) {
				kind = "data"
			}
			ch := x.Choose(3, []uint8{0, 1, 1}, "datagram fate")
			r.cell.Touch()
			switch ch {
			case 1:
				r.trace = append(r.trace, fmt.Sprintf("drop(#%d %s :%d->:%d)", seen, kind, from.Port, to.Port))
				r.lastFault = x.Now
				if kind == "data" {
					r.dataFaults++
				}
				return 0
			case 2:
				r.trace = append(r.trace, fmt.Sprintf("dup(#%d %s :%d->:%d)", seen, kind, from.Port, to.Port))
				r.lastFault = x.Now
				return 2
			}
			r.trace = append(r.trace, fmt.Sprintf("deliver(#%d %s)", seen, kind))
			return 1
		}
		st := stacks.Build(stacks.Config{Kind: "p2pke-udp", N: 2})
		bg, cf := hx.WithCancel(context.Background())
		for i, n := range st.Nodes {
			i, n := i, n
			name := []string{"A", "B"}[i]
			vrt.Go("recv-"+name, func() {
				for n.Receive(bg, func(m stacks.Msg) {
					r.cell.Touch()
					r.received[name] = append(r.received[name], string(m.Payload))
				}) == nil {
				}
			})
		}
		tell := func(i int) {
			name := []string{"A", "B"}[i]
			vrt.Go("tell-"+name, func() {
				err := st.Nodes[i].Tell(bg, 1-i, p2p.IOVec{[]byte("from-" + name)})
				r.cell.Touch()
				r.retAt[name] = x.Now
				if err != nil {
					r.retErr[name] = err.Error()
				}
			})
		}
		tell(0)
		if c.both {
			tell(1)
		}
		want := 1
		if c.both {
			want = 2
		}
		// virtual time passes only when nothing can run: wait for the Tells, at most the horizon
		hx.WaitUntil(&r.cell, "wait for the Tells", func() bool { return len(r.retAt) == want })
		x.Settle() // what is already in the sockets reaches the receivers
		x.NoBranch = true
		cf()
		for _, n := range st.Nodes {
			n.Close()
		}
	}
	sc.Check = func(x *vrt.Exec) []explore.Finding {
		r := x.Data.(*wresult)
		script := strings.Join(r.trace, " ")
		if x.HorizonHit {
			return []explore.Finding{{Kind: "step-horizon", Site: "p2pkeswarm", Detail: "did not finish: " + script}}
		}
		var fs []explore.Finding
		names := []string{"A"}
		if c.both {
			names = append(names, "B")
		}
		bound := 8 * p2pke.HandshakeBackoff
		for _, n := range names {
			at, ok := r.retAt[n]
			switch {
			case !ok:
				fs = append(fs, explore.Finding{Kind: "tell-not-converged", Site: "p2pkeswarm", Detail: fmt.Sprintf("%s's Tell never returned although the network was reliable from t=%v on (virtual time reached %v); script: %s", n, r.lastFault, x.Now, script)})
			case r.retErr[n] != "":
				fs = append(fs, explore.Finding{Kind: "tell-failed", Site: "p2pkeswarm", Detail: fmt.Sprintf("%s's Tell failed: %s; script: %s", n, r.retErr[n], script)})
			case at-r.lastFault > bound:
				fs = append(fs, explore.Finding{Kind: "tell-slower-than-bound", Site: "p2pkeswarm", Detail: fmt.Sprintf("%s's Tell returned %v after the network became reliable (bound 8 x HandshakeBackoff = %v); script: %s", n, at-r.lastFault, bound, script)})
			}
		}
		// with no data datagram harmed, what was told must have arrived
		if r.dataFaults == 0 && len(fs) == 0 {
			for i, n := range names {
				peer := []string{"B", "A"}[i]
				if r.retErr[n] == "" && !contains(r.received[peer], "from-"+n) {
					fs = append(fs, explore.Finding{Kind: "payload-lost-on-reliable-network", Site: "p2pkeswarm", Detail: fmt.Sprintf("%s's Tell succeeded and no data datagram was dropped, but %s received %v; script: %s", n, peer, r.received[peer], script)})
				}
			}
		}
		return fs
	}
	sc.Outcome = func(x *vrt.Exec) string {
		r := x.Data.(*wresult)
		worst := time.Duration(0)
		for _, at := range r.retAt {
			if d := at - r.lastFault; d > worst {
				worst = d
			}
		}
		return fmt.Sprintf("returned=%d worst=%v recvA=%d recvB=%d", len(r.retAt), worst.Round(50*time.Millisecond), len(r.received["A"]), len(r.received["B"]))
	}
	return sc
}

func contains(xs []string, s string) bool {
	for _, x := range xs {
		if x == s {
			return true
		}
	}
	return false
}
