// C07: channels establish, converge and keep working across rotation and restart.
// Part 1: every adversarial prefix (deliver/drop/dup/reorder, timers, both sides starting,
// peer restart) up to a depth bound, followed by a deterministic fair suffix: a pending
// Send must complete within 8 handshake retransmission intervals. Part 2: deterministic
// steady-state runs in virtual time over a grid of timer configurations and traffic
// patterns: no send may fail, nothing may be lost and sessions must not be torn down for
// idleness while traffic flows.
package main

import (
	"fmt"
	"strings"
	"time"

	"go.brendoncarroll.net/p2p/f/x509"
	"go.brendoncarroll.net/p2p/p/p2pke"

	"verifmc/chlab"
	"verifmc/evid"
	"verifmc/explore"
	"verifmc/vrt"
)

type pcfg struct {
	depth   int
	db      int
	seed    uint64
	restart bool
}

func (c pcfg) name() string {
	return fmt.Sprintf("prefix-depth%d-dev%d-seed%d-restart%v", c.depth, c.db, c.seed, c.restart)
}

type presult struct {
	lab       *chlab.Lab
	a, b      *chlab.Node
	converged bool
	elapsed   time.Duration
	pending   string
	lost      string
}

var all = func(*x509.PublicKey) bool { return true }

func prefixScenario(c pcfg) *explore.Scenario {
	sc := &explore.Scenario{Name: c.name(), PB: 0, DB: c.db, NoCache: true}
	sc.Setup = func(x *vrt.Exec) {
		x.MaxSteps = 400000
		x.SchedDeterministic = true
		x.AutoTimers = false
	}
	sc.Body = func(x *vrt.Exec) {
		lab := chlab.New(x, chlab.Timing{}, c.seed)
		defer lab.Close()
		r := &presult{lab: lab}
		x.Data = r
		r.a = lab.NewNode("A", 0, all)
		r.b = lab.NewNode("B", 1, all)
		r.a.Peer, r.b.Peer = r.b, r.a
		sends := map[string]int{}
		for step := 0; step < c.depth; step++ {
			type act struct {
				cost uint8
				do   func()
			}
			var menu []act
			for _, n := range []*chlab.Node{r.a, r.b} {
				n := n
				if sends[n.Name] < 1 {
					menu = append(menu, act{0, func() { sends[n.Name]++; lab.StartSend(n, fmt.Sprintf("msg-%s-%d", n.Name, sends[n.Name])) }})
				}
			}
			for _, p := range lab.Flight {
				p := p
				menu = append(menu, act{0, func() { lab.Deliver(p, p.From.Peer, false) }})
				menu = append(menu, act{1, func() { lab.Drop(p) }})
				menu = append(menu, act{1, func() { lab.Deliver(p, p.From.Peer, true) }})
			}
			if _, ok := x.NextTimer(); ok {
				menu = append(menu, act{0, func() { lab.Fire() }})
			}
			if c.restart && r.b.Gen == 0 {
				menu = append(menu, act{1, func() { r.b.Restart() }})
			}
			costs := make([]uint8, len(menu)+1)
			for i, a := range menu {
				costs[i+1] = a.cost
			}
			k := x.Choose(len(menu)+1, costs, "adversary")
			if k == 0 {
				break
			}
			menu[k-1].do()
		}
		// the network becomes reliable; make sure each side has something to send
		if r.a.SendStarted == 0 {
			lab.StartSend(r.a, "msg-A-late")
		}
		done := func() bool {
			return r.a.SendReturned == r.a.SendStarted && r.b.SendReturned == r.b.SendStarted
		}
		horizon := 8 * p2pke.HandshakeBackoff
		r.elapsed, r.converged = lab.FairSuffix(horizon, done)
		if !r.converged {
			var ps []string
			for _, n := range []*chlab.Node{r.a, r.b} {
				if n.SendReturned < n.SendStarted {
					ps = append(ps, fmt.Sprintf("%s (%d of %d Sends pending)", n.Name, n.SendStarted-n.SendReturned, n.SendStarted))
				}
			}
			r.pending = strings.Join(ps, ", ")
		}
	}
	sc.Check = func(x *vrt.Exec) []explore.Finding {
		r := x.Data.(*presult)
		var fs []explore.Finding
		if x.HorizonHit {
			return []explore.Finding{{Kind: "step-horizon", Site: "Channel", Detail: "did not finish: " + strings.Join(r.lab.Trace, " ")}}
		}
		if !r.converged {
			kind := "send-not-converged"
			if r.b.Gen > 0 {
				kind = "send-not-converged-after-peer-restart"
			}
			for _, g := range r.lab.GhostDelivered {
				if g == "IH" {
					// a delayed InitHello of the peer's previous incarnation arrived after its restart
					kind = "send-not-converged-after-stale-inithello-of-restarted-peer"
				}
			}
			fs = append(fs, explore.Finding{Kind: kind, Site: "Channel", Detail: fmt.Sprintf("after the network became reliable a pending Send did not complete within 8 x HandshakeBackoff (%v of virtual time passed): %s; script: %s", r.elapsed, r.pending, strings.Join(r.lab.Trace, " "))})
		}
		for _, n := range []*chlab.Node{r.a, r.b} {
			for _, e := range n.SendErrs {
				fs = append(fs, explore.Finding{Kind: "send-failed", Site: "Channel", Detail: fmt.Sprintf("%s.Send failed: %s; script: %s", n.Name, e, strings.Join(r.lab.Trace, " "))})
			}
		}
		return fs
	}
	sc.Outcome = func(x *vrt.Exec) string {
		r := x.Data.(*presult)
		return fmt.Sprintf("converged=%v after=%v", r.converged, r.elapsed.Round(250*time.Millisecond))
	}
	return sc
}

// ---- steady state ----

type scfg struct {
	t      chlab.Timing
	period time.Duration
	both   bool
	offset time.Duration
}

func (c scfg) name() string {
	return fmt.Sprintf("steady-rekey%v-keepalive%v-reject%v-period%v-both%v-offset%v", c.t.Rekey, c.t.KeepAlive, c.t.Reject, c.period, c.both, c.offset)
}

type sresult struct {
	lab       *chlab.Lab
	a, b      *chlab.Node
	sentA     []string
	sentB     []string
	lateSends []string
	total     time.Duration
}

func steadyScenario(c scfg) *explore.Scenario {
	sc := &explore.Scenario{Name: c.name(), PB: 0, NoCache: true, Single: true}
	sc.Setup = func(x *vrt.Exec) {
		x.MaxSteps = 5_000_000
		x.SchedDeterministic = true
		x.NoBranch = true
		x.AutoTimers = false
	}
	sc.Body = func(x *vrt.Exec) {
		lab := chlab.New(x, c.t, 1)
		defer lab.Close()
		r := &sresult{lab: lab, total: 3 * c.t.Reject}
		x.Data = r
		r.a = lab.NewNode("A", 0, all)
		r.b = lab.NewNode("B", 1, all)
		r.a.Peer, r.b.Peer = r.b, r.a
		drain := func() {
			for i := 0; i < 1000 && len(lab.Flight) > 0; i++ {
				p := lab.Flight[0]
				lab.Deliver(p, p.From.Peer, false)
			}
		}
		next := c.offset
		i := 0
		for x.Now < r.total {
			when, ok := x.NextTimer()
			if ok && when <= next {
				lab.Fire()
				drain()
				continue
			}
			if next > r.total {
				break
			}
			// every earlier Send must have completed by now (period >= 8 x HandshakeBackoff)
			for _, n := range []*chlab.Node{r.a, r.b} {
				if n.SendReturned < n.SendStarted {
					r.lateSends = append(r.lateSends, fmt.Sprintf("%s at t=%v", n.Name, x.Now))
				}
			}
			x.Advance(next - x.Now)
			i++
			if c.both && i%2 == 0 {
				m := fmt.Sprintf("b-%d", i)
				r.sentB = append(r.sentB, m)
				lab.StartSend(r.b, m)
			} else {
				m := fmt.Sprintf("a-%d", i)
				r.sentA = append(r.sentA, m)
				lab.StartSend(r.a, m)
			}
			drain()
			next += c.period
		}
		// let the last handshake finish
		lab.FairSuffix(8*c.t.Handshake, func() bool {
			return r.a.SendReturned == r.a.SendStarted && r.b.SendReturned == r.b.SendStarted && len(lab.Flight) == 0
		})
	}
	sc.Check = func(x *vrt.Exec) []explore.Finding {
		r := x.Data.(*sresult)
		var fs []explore.Finding
		add := func(kind, detail string) {
			fs = append(fs, explore.Finding{Kind: kind, Site: "Channel", Detail: c.name() + ": " + detail})
		}
		if x.HorizonHit {
			add("step-horizon", "did not finish")
			return fs
		}
		for _, n := range []*chlab.Node{r.a, r.b} {
			if len(n.SendErrs) > 0 {
				add("send-failed", fmt.Sprintf("%s.Send failed: %v", n.Name, n.SendErrs[0]))
			}
			if n.SendReturned < n.SendStarted {
				add("send-not-converged", fmt.Sprintf("%d Sends of %s never returned over a reliable network", n.SendStarted-n.SendReturned, n.Name))
			}
		}
		if len(r.lateSends) > 0 {
			add("send-slower-than-horizon", fmt.Sprintf("%d Sends were still pending one traffic period later, first: %s", len(r.lateSends), r.lateSends[0]))
		}
		missing := func(sent []string, got []string) []string {
			have := map[string]bool{}
			for _, g := range got {
				have[g] = true
			}
			var out []string
			for _, s := range sent {
				if !have[s] {
					out = append(out, s)
				}
			}
			return out
		}
		if m := missing(r.sentA, r.b.Received); len(m) > 0 {
			add("payload-lost-on-reliable-network", fmt.Sprintf("%d of %d payloads A sent never reached B, first %s", len(m), len(r.sentA), m[0]))
		}
		if m := missing(r.sentB, r.a.Received); len(m) > 0 {
			add("payload-lost-on-reliable-network", fmt.Sprintf("%d of %d payloads B sent never reached A, first %s", len(m), len(r.sentB), m[0]))
		}
		limit := int(r.total/c.t.Rekey) + 2
		receivers := []*chlab.Node{r.b}
		if c.both {
			receivers = append(receivers, r.a) // a side that receives nothing may idle out by design
		}
		for _, n := range receivers {
			if n.InitHellos > 2*limit {
				add("idle-teardown-under-traffic", fmt.Sprintf("%s emitted %d InitHello packets in %v of steady traffic (rekey interval %v allows about %d)", n.Name, n.InitHellos, r.total, c.t.Rekey, limit))
			}
		}
		return fs
	}
	sc.Outcome = func(x *vrt.Exec) string {
		r := x.Data.(*sresult)
		return fmt.Sprintf("IH(A)=%d IH(B)=%d recvB=%d recvA=%d", r.a.InitHellos, r.b.InitHellos, len(r.b.Received), len(r.a.Received))
	}
	return sc
}

func main() {
	run := evid.Start("C07", "model_checking")
	var scs []*explore.Scenario
	depth := evid.Pick(run, 7, 9)
	s := time.Second
	hb := 100 * time.Millisecond
	timings := []chlab.Timing{
		{Rekey: 6 * s, KeepAlive: 2 * s, Reject: 9 * s, Handshake: hb},
		{Rekey: 120 * s, KeepAlive: 15 * s, Reject: 180 * s, Handshake: hb},
		{Rekey: 4 * s, KeepAlive: 8 * s, Reject: 6 * s, Handshake: hb},
	}
	for _, t := range timings {
		for _, period := range []time.Duration{t.KeepAlive / 2, s} {
			for _, both := range []bool{false, true} {
				offsets := []time.Duration{0, 300 * time.Millisecond}
				if run.Thorough() {
					offsets = []time.Duration{0, 100 * time.Millisecond, 300 * time.Millisecond, 700 * time.Millisecond, 900 * time.Millisecond}
				}
				for _, off := range offsets {
					scs = append(scs, steadyScenario(scfg{t: t, period: period, both: both, offset: off}))
				}
			}
		}
	}
	scs = append(scs, outageScenarios(run.Thorough())...)
	// the deterministic steady-state runs come first so that the time budget they do not
	// use is inherited by the enumerations
	for _, seed := range []uint64{1, 2} {
		scs = append(scs, prefixScenario(pcfg{depth: depth, db: evid.Pick(run, 1, 2), seed: seed}))
	}
	scs = append(scs, prefixScenario(pcfg{depth: depth, db: evid.Pick(run, 1, 2), seed: 1, restart: true}))
	for _, both := range []bool{false, true} {
		scs = append(scs, swarmLossScenario(wcfg{k: evid.Pick(run, 8, 12), db: evid.Pick(run, 2, 3), both: both}))
	}
	explore.Main(run, scs, evid.Pick(run, 150*time.Second, 20*time.Minute))
	run.Set("prefix_depth", depth)
	run.Assume("the fair suffix delivers every in-flight packet promptly and in order and fires timers only when nothing is in flight; handlers run atomically")
	run.Finish()
}
