package main

import (
	"fmt"
	"strings"
	"time"

	"verifmc/chlab"
	"verifmc/explore"
	"verifmc/vrt"
)

// Part 4: a network outage. After a session was established every packet is lost for a
// given time (timers keep firing: keep-alive expiry, rekey attempts, session expiry), then
// the network is reliable again and one side sends. The pending Send must complete within
// 8 handshake retransmission intervals, whatever expired or was being rekeyed meanwhile.

type ocfg struct {
	outage time.Duration
	sender string // which side sends once the network is back: "A" (dialled originally) or "B"
	seed   uint64
}

func (c ocfg) name() string {
	return fmt.Sprintf("outage-%v-then-%s-sends-seed%d", c.outage, c.sender, c.seed)
}

var outageTiming = chlab.Timing{Rekey: 4 * time.Second, KeepAlive: 2 * time.Second, Reject: 6 * time.Second, Handshake: 100 * time.Millisecond}

func outageScenario(c ocfg) *explore.Scenario {
	sc := &explore.Scenario{Name: c.name(), PB: 0, NoCache: true, Single: true}
	sc.Setup = func(x *vrt.Exec) {
		x.MaxSteps = 2_000_000
		x.SchedDeterministic = true
		x.NoBranch = true
		x.AutoTimers = false
	}
	sc.Body = func(x *vrt.Exec) {
		lab := chlab.New(x, outageTiming, c.seed)
		defer lab.Close()
		r := &presult{lab: lab}
		x.Data = r
		r.a = lab.NewNode("A", 0, all)
		r.b = lab.NewNode("B", 1, all)
		r.a.Peer, r.b.Peer = r.b, r.a
		lab.StartSend(r.a, "before-outage")
		if _, ok := lab.FairSuffix(10*time.Second, func() bool { return r.a.SendReturned > 0 && len(lab.Flight) == 0 }); !ok {
			r.pending = "the first handshake did not complete"
			return
		}
		start := x.Now
		lab.Trace = append(lab.Trace, fmt.Sprintf("--- outage of %v: every packet is lost ---", c.outage))
		n := 0
		for x.Now-start < c.outage {
			for len(lab.Flight) > 0 {
				lab.Drop(lab.Flight[0])
				n++
			}
			if when, ok := x.NextTimer(); !ok || when-start > c.outage {
				x.Advance(c.outage - (x.Now - start))
				break
			}
			lab.Fire()
		}
		for len(lab.Flight) > 0 {
			lab.Drop(lab.Flight[0])
		}
		// keep the trace readable: the drops and timer firings of the outage are summarised
		kept := lab.Trace[:0]
		for _, t := range lab.Trace {
			if !strings.HasPrefix(t, "drop(") && !strings.HasPrefix(t, "fire(") {
				kept = append(kept, t)
			}
		}
		lab.Trace = append(kept, fmt.Sprintf("(%d packets lost) --- network reliable again at t=%v ---", n, x.Now))
		sender := r.a
		if c.sender == "B" {
			sender = r.b
		}
		sent0 := sender.SendReturned
		lab.StartSend(sender, "after-outage-from-"+sender.Name)
		horizon := 8 * outageTiming.Handshake
		r.elapsed, r.converged = lab.FairSuffix(horizon, func() bool { return sender.SendReturned > sent0 })
		if !r.converged {
			r.pending = fmt.Sprintf("%s's Send", sender.Name)
		}
	}
	sc.Check = func(x *vrt.Exec) []explore.Finding {
		r := x.Data.(*presult)
		if x.HorizonHit {
			return []explore.Finding{{Kind: "step-horizon", Site: "Channel", Detail: "did not finish"}}
		}
		var fs []explore.Finding
		trace := r.lab.Trace
		if len(trace) > 60 {
			trace = append(append([]string{}, trace[:30]...), append([]string{"..."}, trace[len(trace)-30:]...)...)
		}
		if !r.converged {
			fs = append(fs, explore.Finding{Kind: "send-not-converged-after-outage", Site: "Channel", Detail: fmt.Sprintf("%s: after an outage of %v (rekey %v, keep-alive %v, reject-after %v) the network became reliable but %s did not complete within 8 x HandshakeBackoff (%v of virtual time passed); script: %s", c.name(), c.outage, outageTiming.Rekey, outageTiming.KeepAlive, outageTiming.Reject, r.pending, r.elapsed, strings.Join(trace, " "))})
		}
		for _, n := range []*chlab.Node{r.a, r.b} {
			for _, e := range n.SendErrs {
				fs = append(fs, explore.Finding{Kind: "send-failed", Site: "Channel", Detail: fmt.Sprintf("%s: %s.Send failed: %s", c.name(), n.Name, e)})
			}
		}
		return fs
	}
	sc.Outcome = func(x *vrt.Exec) string {
		r := x.Data.(*presult)
		return fmt.Sprintf("converged=%v after=%v", r.converged, r.elapsed.Round(50*time.Millisecond))
	}
	return sc
}

func outageScenarios(thorough bool) []*explore.Scenario {
	var out []*explore.Scenario
	s := time.Second
	outages := []time.Duration{3 * s, 5 * s, 7 * s, 11 * s, 15 * s}
	if thorough {
		outages = []time.Duration{1 * s, 3 * s, 4500 * time.Millisecond, 5 * s, 7 * s, 9 * s, 11 * s, 15 * s, 30 * s}
	}
	for _, o := range outages {
		for _, snd := range []string{"A", "B"} {
			for _, seed := range []uint64{1, 2} {
				out = append(out, outageScenario(ocfg{outage: o, sender: snd, seed: seed}))
			}
		}
	}
	return out
}
