// C19: nearest-first queries really are nearest-first and complete.
// Exhaustive enumeration: distance laws over all triples of short byte strings; ForEach /
// Closest / ForEachCloser / ForEachMatching over every subset of a key universe times
// every query key; DHTNode.ListNodeInfos / HandleGet.Closer / HandleFindNode against a
// brute-force sort.
package main

import (
	"bytes"
	"fmt"
	"sort"
	"time"

	"go.brendoncarroll.net/p2p"
	"go.brendoncarroll.net/p2p/p/kademlia"

	"verifmc/evid"
)

var run *evid.Run

// refDist is the specification: XOR over the common prefix length.
func refDist(a, b []byte) []byte {
	l := len(a)
	if len(b) < l {
		l = len(b)
	}
	d := make([]byte, l)
	for i := 0; i < l; i++ {
		d[i] = a[i] ^ b[i]
	}
	return d
}

func refCmp(x, a, b []byte) int { return bytes.Compare(refDist(x, a), refDist(x, b)) }

func refLz(x []byte) int {
	n := 0
	for _, c := range x {
		if c == 0 {
			n += 8
			continue
		}
		for m := byte(0x80); m&c == 0; m >>= 1 {
			n++
		}
		break
	}
	return n
}

func sign(x int) int {
	switch {
	case x < 0:
		return -1
	case x > 0:
		return 1
	}
	return 0
}

func guard(kind, site string, witness any, f func()) {
	defer func() {
		if r := recover(); r != nil {
			run.Violate(evid.Violation{Kind: "panic", Site: site, Detail: fmt.Sprintf("panic: %v", r), Witness: witness})
		}
	}()
	f()
}

func distanceLaws() {
	alpha := []byte{0x00, 0x01, 0x7f, 0x80, 0xff}
	var strs [][]byte
	strs = append(strs, []byte{})
	for _, a := range alpha {
		strs = append(strs, []byte{a})
	}
	for _, a := range alpha {
		for _, b := range alpha {
			strs = append(strs, []byte{a, b})
		}
	}
	n := 0
	for _, x := range strs {
		for _, a := range strs {
			// pairwise laws
			d := kademlia.Distance(x, a)
			if !bytes.Equal(d, refDist(x, a)) || !bytes.Equal(d, kademlia.Distance(a, x)) {
				run.Violate(evid.Violation{Kind: "distance-not-symmetric-xor", Site: "Distance", Detail: fmt.Sprintf("Distance(%x,%x)=%x Distance(%x,%x)=%x want %x", x, a, d, a, x, kademlia.Distance(a, x), refDist(x, a)), Witness: []string{evid.Hex(x), evid.Hex(a)}})
			}
			if len(x) == len(a) {
				zero := true
				for _, c := range d {
					if c != 0 {
						zero = false
					}
				}
				if zero != bytes.Equal(x, a) {
					run.Violate(evid.Violation{Kind: "distance-zero-iff-equal", Site: "Distance", Detail: fmt.Sprintf("x=%x a=%x dist=%x", x, a, d), Witness: []string{evid.Hex(x), evid.Hex(a)}})
				}
			}
			if kademlia.DistanceLz(x, a) != refLz(refDist(x, a)) || kademlia.LeadingZeros(d) != refLz(d) {
				run.Violate(evid.Violation{Kind: "distance-lz", Site: "DistanceLz", Detail: fmt.Sprintf("x=%x a=%x DistanceLz=%d LeadingZeros=%d want %d", x, a, kademlia.DistanceLz(x, a), kademlia.LeadingZeros(d), refLz(d)), Witness: []string{evid.Hex(x), evid.Hex(a)}})
			}
			for _, b := range strs {
				n++
				got := sign(kademlia.DistanceCmp(x, a, b))
				want := sign(refCmp(x, a, b))
				if got != want {
					run.Violate(evid.Violation{Kind: "cmp-disagrees-with-bytes-compare", Site: "DistanceCmp", Detail: fmt.Sprintf("DistanceCmp(%x,%x,%x)=%d want %d", x, a, b, got, want), Witness: []string{evid.Hex(x), evid.Hex(a), evid.Hex(b)}})
				}
				if got != -sign(kademlia.DistanceCmp(x, b, a)) {
					run.Violate(evid.Violation{Kind: "cmp-not-antisymmetric", Site: "DistanceCmp", Detail: fmt.Sprintf("x=%x a=%x b=%x", x, a, b), Witness: []string{evid.Hex(x), evid.Hex(a), evid.Hex(b)}})
				}
				if kademlia.DistanceLt(x, a, b) != (want < 0) || kademlia.DistanceGt(x, a, b) != (want > 0) {
					run.Violate(evid.Violation{Kind: "lt-gt-disagree", Site: "DistanceLt", Detail: fmt.Sprintf("x=%x a=%x b=%x", x, a, b), Witness: []string{evid.Hex(x), evid.Hex(a), evid.Hex(b)}})
				}
			}
		}
		// transitivity for fixed x over all (a,b,c)
		for _, a := range strs {
			for _, b := range strs {
				if kademlia.DistanceCmp(x, a, b) > 0 {
					continue
				}
				for _, c := range strs {
					n++
					if kademlia.DistanceCmp(x, b, c) <= 0 && kademlia.DistanceCmp(x, a, c) > 0 {
						run.Violate(evid.Violation{Kind: "cmp-not-transitive", Site: "DistanceCmp", Detail: fmt.Sprintf("x=%x a=%x b=%x c=%x", x, a, b, c), Witness: []string{evid.Hex(x), evid.Hex(a), evid.Hex(b), evid.Hex(c)}})
					}
				}
			}
		}
	}
	run.Add("law_cases", n)
	run.Sample(map[string]any{"law": "DistanceCmp(x,a,b)==bytes.Compare(Distance(x,a),Distance(x,b))", "x": "7f80", "a": "00", "b": "ff01"})
}

// distanceLawsLong repeats the comparison laws on keys around machine-word boundaries (the
// short-string grid above never leaves the first word): equal-length strings of 7..33 bytes
// that agree everywhere except in one or two positions chosen from the word boundaries.
func distanceLawsLong() {
	n := 0
	vals := []byte{0x00, 0x01, 0x80}
	for _, L := range []int{7, 8, 9, 12, 15, 16, 17, 20, 24, 31, 32, 33} {
		posSet := map[int]bool{0: true, L - 1: true, L / 2: true}
		for _, p := range []int{6, 7, 8, 9, 15, 16, 17, 23, 24} {
			if p < L {
				posSet[p] = true
			}
		}
		var strs [][]byte
		seen := map[string]bool{}
		addStr := func(b []byte) {
			if !seen[string(b)] {
				seen[string(b)] = true
				strs = append(strs, b)
			}
		}
		for p := 0; p < L; p++ {
			if !posSet[p] {
				continue
			}
			for _, v := range vals {
				b := bytes.Repeat([]byte{0x5a}, L)
				b[p] ^= v
				addStr(b)
				// a second difference in the last byte: ties in the head decided by the tail
				b2 := append([]byte{}, b...)
				b2[L-1] ^= 0x01
				addStr(b2)
			}
		}
		for _, x := range strs {
			for _, a := range strs {
				for _, b := range strs {
					n++
					got, want := sign(kademlia.DistanceCmp(x, a, b)), sign(refCmp(x, a, b))
					if got != want {
						run.Violate(evid.Violation{Kind: "cmp-disagrees-with-bytes-compare", Site: "DistanceCmp", Detail: fmt.Sprintf("len %d: DistanceCmp(%x,%x,%x)=%d want %d", L, x, a, b, got, want), Witness: []string{evid.Hex(x), evid.Hex(a), evid.Hex(b)}})
						return
					}
					if kademlia.DistanceLt(x, a, b) != (want < 0) || kademlia.DistanceGt(x, a, b) != (want > 0) {
						run.Violate(evid.Violation{Kind: "lt-gt-disagree", Site: "DistanceLt", Detail: fmt.Sprintf("len %d: x=%x a=%x b=%x", L, x, a, b), Witness: []string{evid.Hex(x), evid.Hex(a), evid.Hex(b)}})
						return
					}
				}
				if !bytes.Equal(kademlia.Distance(x, a), refDist(x, a)) || kademlia.DistanceLz(x, a) != refLz(refDist(x, a)) {
					run.Violate(evid.Violation{Kind: "distance-lz", Site: "DistanceLz", Detail: fmt.Sprintf("len %d: x=%x a=%x", L, x, a), Witness: []string{evid.Hex(x), evid.Hex(a)}})
					return
				}
			}
		}
	}
	run.Add("law_cases", n)
}

type entrySet struct {
	locus []byte
	keys  [][]byte
}

var t0 = time.Unix(1_700_000_000, 0)

func checkQueries(es entrySet, c *kademlia.Cache[int], q []byte, maxBucket bool) {
	witness := func() any {
		var ks []string
		for _, k := range es.keys {
			ks = append(ks, evid.Hex(k))
		}
		return map[string]any{"locus": evid.Hex(es.locus), "entries": ks, "query": evid.Hex(q)}
	}
	// ForEach: every entry exactly once in non-decreasing distance
	var seq [][]byte
	guard("panic", "ForEach", witness(), func() {
		c.ForEach(q, func(e kademlia.Entry[int]) bool {
			seq = append(seq, e.Key)
			return true
		})
	})
	run.Add("evaluations", 1)
	seen := map[string]int{}
	for _, k := range seq {
		seen[string(k)]++
	}
	if len(seq) != len(es.keys) || len(seen) != len(es.keys) {
		run.Violate(evid.Violation{Kind: "foreach-not-exactly-once", Site: "Cache.ForEach", Detail: fmt.Sprintf("visited %d (distinct %d) of %d entries", len(seq), len(seen), len(es.keys)), Witness: witness()})
		return
	}
	for i := 1; i < len(seq); i++ {
		if refCmp(q, seq[i-1], seq[i]) > 0 {
			run.Violate(evid.Violation{Kind: "foreach-order", Site: "Cache.ForEach", Detail: fmt.Sprintf("locus=%x query=%x: %x (dist %x) visited before %x (dist %x)", es.locus, q, seq[i-1], refDist(q, seq[i-1]), seq[i], refDist(q, seq[i])), Witness: witness()})
			break
		}
	}
	if len(seq) > 1 {
		run.Outcome(fmt.Sprintf("order-checked n=%d", len(seq)))
	}
	// a query issued from inside a query's callback (both are readers) must leave the outer
	// enumeration intact: same sequence as the plain one
	if len(es.keys) > 1 {
		inv := make([]byte, len(q))
		for i := range q {
			inv[i] = ^q[i]
		}
		var nested [][]byte
		guard("panic", "ForEach", witness(), func() {
			c.ForEach(q, func(e kademlia.Entry[int]) bool {
				nested = append(nested, e.Key)
				c.ForEach(inv, func(kademlia.Entry[int]) bool { return true })
				c.Closest(es.locus)
				return true
			})
		})
		run.Add("evaluations", 1)
		same := len(nested) == len(seq)
		for i := 0; same && i < len(seq); i++ {
			same = refCmp(q, nested[i], seq[i]) == 0
		}
		if !same {
			run.Violate(evid.Violation{Kind: "foreach-disturbed-by-nested-query", Site: "Cache.ForEach", Detail: fmt.Sprintf("locus=%x query=%x: with another query issued from the callback the enumeration visits %x, alone it visits %x", es.locus, q, nested, seq), Witness: witness()})
		}
	}
	// Closest is a true minimum
	guard("panic", "Closest", witness(), func() {
		cl := c.Closest(q)
		if (cl == nil) != (len(es.keys) == 0) {
			run.Violate(evid.Violation{Kind: "closest-nil", Site: "Cache.Closest", Detail: fmt.Sprintf("Closest nil=%v with %d entries", cl == nil, len(es.keys)), Witness: witness()})
			return
		}
		if cl != nil {
			for _, k := range es.keys {
				if refCmp(q, k, cl.Key) < 0 {
					run.Violate(evid.Violation{Kind: "closest-not-minimum", Site: "Cache.Closest", Detail: fmt.Sprintf("locus=%x query=%x: Closest=%x (dist %x) but %x is nearer (dist %x)", es.locus, q, cl.Key, refDist(q, cl.Key), k, refDist(q, k)), Witness: witness()})
					break
				}
			}
		}
	})
	// ForEachCloser = { e : d(q,e) < d(q,locus) }
	guard("panic", "ForEachCloser", witness(), func() {
		got := map[string]bool{}
		c.ForEachCloser(q, func(e kademlia.Entry[int]) bool {
			got[string(e.Key)] = true
			return true
		})
		for _, k := range es.keys {
			want := refCmp(q, k, es.locus) < 0
			if got[string(k)] != want {
				run.Violate(evid.Violation{Kind: "closer-set-wrong", Site: "Cache.ForEachCloser", Detail: fmt.Sprintf("locus=%x query=%x entry=%x: reported closer=%v, truly closer=%v", es.locus, q, k, got[string(k)], want), Witness: witness()})
				break
			}
		}
	})
	// ForEachMatching = prefix filter, for every nbits the prefix supports
	for nbits := 0; nbits <= 8*len(q); nbits++ {
		nb := nbits
		guard("panic", "ForEachMatching", map[string]any{"w": witness(), "nbits": nb}, func() {
			got := map[string]bool{}
			c.ForEachMatching(q, nb, func(e kademlia.Entry[int]) bool {
				got[string(e.Key)] = true
				return true
			})
			for _, k := range es.keys {
				want := len(k)*8 >= nb && refLz(refDist(k, q)) >= nb
				if len(k) > len(q) && len(k)*8 >= nb {
					// compare only the first nb bits
					want = refLz(refDist(k[:len(q)], q)) >= nb
				}
				if got[string(k)] != want {
					run.Violate(evid.Violation{Kind: "matching-set-wrong", Site: "Cache.ForEachMatching", Detail: fmt.Sprintf("prefix=%x nbits=%d entry=%x: reported=%v want=%v", q, nb, k, got[string(k)], want), Witness: witness()})
					break
				}
			}
		})
	}
}

func cacheSubsets() {
	loci := [][]byte{{0x00}, {0xa5}, {0xff}}
	universe := [][]byte{{0x80}, {0xc0}, {0x40}, {0x60}, {0x20}, {0x10}, {0x05}, {0x02}, {0x01}, {0x00}}
	if !run.Thorough() {
		loci = loci[:2]
	}
	var queries [][]byte
	for i := 0; i < 256; i++ {
		queries = append(queries, []byte{byte(i)})
	}
	queries = append(queries, nil, []byte{}, []byte{0x80, 0x01}, []byte{0x00, 0xff}, []byte{0xa5, 0x00})
	states, trans := 0, 0
	for _, locus := range loci {
		for mask := 0; mask < 1<<len(universe); mask++ {
			var keys [][]byte
			for i, k := range universe {
				if mask&(1<<i) != 0 {
					// keys are XORed with the locus so that every bucket is populated for every locus
					keys = append(keys, []byte{k[0] ^ locus[0]})
				}
			}
			c := kademlia.NewCache[int](locus, 64, 0)
			for i, k := range keys {
				c.Put(k, i, t0, time.Time{})
			}
			states++
			es := entrySet{locus: locus, keys: keys}
			for _, q := range queries {
				trans++
				checkQueries(es, c, q, false)
			}
		}
	}
	// two-byte locus, mixed key lengths
	locus2 := []byte{0x00, 0x00}
	uni2 := [][]byte{{0x80, 0x00}, {0x40, 0x01}, {0x00, 0x80}, {0x00, 0x40}, {0x00, 0x01}, {0x00, 0x00}, {0x01}, {0x00, 0x01, 0x02}}
	var q2 [][]byte
	for _, a := range []byte{0x00, 0x01, 0x40, 0x80, 0xff} {
		q2 = append(q2, []byte{a})
		for _, b := range []byte{0x00, 0x01, 0x41, 0x80, 0xff} {
			q2 = append(q2, []byte{a, b})
		}
	}
	q2 = append(q2, []byte{0, 0, 0}, []byte{0, 1, 2})
	for mask := 0; mask < 1<<len(uni2); mask++ {
		var keys [][]byte
		for i, k := range uni2 {
			if mask&(1<<i) != 0 {
				keys = append(keys, k)
			}
		}
		c := kademlia.NewCache[int](locus2, 64, 0)
		for i, k := range keys {
			c.Put(k, i, t0, time.Time{})
		}
		states++
		es := entrySet{locus: locus2, keys: keys}
		for _, q := range q2 {
			trans++
			checkQueries(es, c, q, false)
		}
	}
	run.Add("states", states)
	run.Add("transitions", trans)
	run.Sample(map[string]any{"locus": "a5", "entries": []string{"25", "65", "e5", "a4"}, "query": "80", "checked": "ForEach order, Closest, ForEachCloser, ForEachMatching(nbits 0..8)"})
}

func pid(first ...byte) (ret p2p.PeerID) {
	copy(ret[:], first)
	return ret
}

func dhtNodeQueries() {
	firsts := []byte{0x80, 0xc0, 0x40, 0x60, 0x20, 0x05, 0x01}
	local := pid(0x00, 0x01)
	states, trans := 0, 0
	for mask := 0; mask < 1<<len(firsts); mask++ {
		node := kademlia.NewDHTNode(kademlia.DHTNodeParams{LocalID: local, PeerCacheSize: 512, DataCacheSize: 16})
		var ids []p2p.PeerID
		for i, f := range firsts {
			if mask&(1<<i) != 0 {
				id := pid(f, byte(i))
				ids = append(ids, id)
				node.AddPeer(id, []byte{f})
			}
		}
		states++
		for q := 0; q < 256; q += 3 {
			key := pid(byte(q), 0x55)
			w := map[string]any{"local": local.String(), "peers_mask": mask, "key_first_byte": q}
			for _, n := range []int{0, 1, 2, 3, len(ids), len(ids) + 1} {
				trans++
				guard("panic", "ListNodeInfos", w, func() {
					got := node.ListNodeInfos(key[:], n)
					wantN := n
					if len(ids) < n {
						wantN = len(ids)
					}
					if len(got) != wantN {
						run.Violate(evid.Violation{Kind: "list-length", Site: "DHTNode.ListNodeInfos", Detail: fmt.Sprintf("asked %d of %d peers, got %d", n, len(ids), len(got)), Witness: w})
						return
					}
					sorted := append([]p2p.PeerID{}, ids...)
					sort.Slice(sorted, func(i, j int) bool { return refCmp(key[:], sorted[i][:], sorted[j][:]) < 0 })
					for i := range got {
						if refCmp(key[:], got[i].ID[:], sorted[i][:]) != 0 {
							run.Violate(evid.Violation{Kind: "list-not-nearest", Site: "DHTNode.ListNodeInfos", Detail: fmt.Sprintf("key=%x.. position %d is %x.. want distance of %x..", key[:2], i, got[i].ID[:2], sorted[i][:2]), Witness: w})
							return
						}
					}
				})
			}
			trans++
			guard("panic", "HandleGet", w, func() {
				res, _ := node.HandleGet(pid(9), kademlia.GetReq{Key: key[:]})
				got := map[p2p.PeerID]bool{}
				for _, ni := range res.Closer {
					got[ni.ID] = true
				}
				for _, id := range ids {
					want := refCmp(key[:], id[:], local[:]) < 0
					if got[id] != want {
						run.Violate(evid.Violation{Kind: "closer-set-wrong", Site: "DHTNode.closerNodes", Detail: fmt.Sprintf("key=%x.. peer=%x.. reported closer=%v truly closer=%v", key[:2], id[:2], got[id], want), Witness: w})
						return
					}
				}
			})
			trans++
			guard("panic", "HandleFindNode", w, func() {
				res, _ := node.HandleFindNode(pid(9), kademlia.FindNodeReq{Target: key, Limit: 1000})
				if len(res.Nodes) > 10 {
					run.Violate(evid.Violation{Kind: "find-node-uncapped", Site: "DHTNode.HandleFindNode", Detail: fmt.Sprintf("returned %d nodes", len(res.Nodes)), Witness: w})
				}
			})
		}
	}
	run.Add("states", states)
	run.Add("transitions", trans)
}

func main() {
	run = evid.Start("C19", "model_checking")
	distanceLaws()
	distanceLawsLong()
	cacheSubsets()
	dhtNodeQueries()
	run.Set("traces_validated_against_impl", run.Get("transitions"))
	run.Set("exhaustive", true)
	run.Set("explanation", "states = every subset of the key universes (real caches / DHT nodes built per subset); transitions = (cache, query) pairs each checked for ForEach order, Closest, ForEachCloser, ForEachMatching; law_cases = triples/quadruples of short byte strings for the comparison laws; all executed on the implementation")
	run.Assume("cache keys longer than 3 bytes and universes beyond the 10-key/8-key sets; comparison laws on long keys only for equal-length strings of 7..33 bytes differing at word-boundary positions")
	run.Finish()
}
