// C13: cancellation is prompt and each message is handed to exactly one receiver.
// Controlled-scheduler exploration (E1) of the real TellHub / AskHub / Queue.
package main

import (
	"context"
	"fmt"
	"time"

	"go.brendoncarroll.net/p2p"
	"go.brendoncarroll.net/p2p/s/memswarm"
	"go.brendoncarroll.net/p2p/s/swarmutil"

	"verifmc/evid"
	"verifmc/explore"
	"verifmc/hx"
	"verifmc/netrows"
	"verifmc/vrt"
)

type Addr = memswarm.Addr

type event struct {
	Kind string // deliver-call, deliver-ret, recv-call, recv-ret, cb-start, cb-end, cancel, close
	Who  string
	Msg  int
	Err  string
	N    int
}

type ledger struct {
	cell      hx.Cell
	events    []event
	cancelled map[string]bool // thread name -> its context was cancelled
	closed    bool
}

func led(x *vrt.Exec) *ledger { return x.Data.(*ledger) }

func (l *ledger) add(e event) { l.cell.Touch(); l.events = append(l.events, e) }

func errStr(err error) string {
	if err == nil {
		return ""
	}
	return err.Error()
}

type hubCfg struct {
	kind      string // tell | ask
	producers int
	receivers int
	cancel    []string // names of threads whose context gets cancelled by a canceller thread each
	closer    bool
}

func (c hubCfg) name() string {
	return fmt.Sprintf("%shub-p%d-r%d-cancel%v-close%v", c.kind, c.producers, c.receivers, c.cancel, c.closer)
}

func payload(i int) []byte { return []byte{byte(0xA0 + i), byte(i), 0x5a} }

func hubScenario(c hubCfg, pb int) *explore.Scenario {
	sc := &explore.Scenario{Name: c.name(), PB: pb}
	sc.Setup = func(x *vrt.Exec) { x.Data = &ledger{cancelled: map[string]bool{}}; x.MaxSteps = 2000 }
	sc.Body = func(x *vrt.Exec) {
		l := led(x)
		tell := swarmutil.NewTellHub[Addr]()
		ask := swarmutil.NewAskHub[Addr]()
		ctxs := map[string]context.Context{}
		cancels := map[string]context.CancelFunc{}
		mkctx := func(name string) context.Context {
			ctx, cf := hx.WithCancel(context.Background())
			ctxs[name], cancels[name] = ctx, cf
			return ctx
		}
		for i := 0; i < c.producers; i++ {
			i := i
			name := fmt.Sprintf("D%d", i)
			ctx := mkctx(name)
			vrt.Go(name, func() {
				msg := p2p.Message[Addr]{Src: Addr{N: 100 + i}, Dst: Addr{N: 7}, Payload: payload(i)}
				l.add(event{Kind: "deliver-call", Who: name, Msg: i})
				if c.kind == "tell" {
					err := tell.Deliver(ctx, msg)
					l.add(event{Kind: "deliver-ret", Who: name, Msg: i, Err: errStr(err)})
				} else {
					resp := make([]byte, 8)
					n, err := ask.Deliver(ctx, resp, msg)
					l.add(event{Kind: "deliver-ret", Who: name, Msg: i, Err: errStr(err), N: n})
					if err == nil && n >= 0 && (n != 2 || resp[0] != byte(i) || resp[1] != 0x77) {
						l.add(event{Kind: "bad-response", Who: name, Msg: i, N: n})
					}
				}
			})
		}
		for j := 0; j < c.receivers; j++ {
			name := fmt.Sprintf("R%d", j)
			ctx := mkctx(name)
			vrt.Go(name, func() {
				l.add(event{Kind: "recv-call", Who: name})
				var err error
				if c.kind == "tell" {
					err = tell.Receive(ctx, func(m p2p.Message[Addr]) {
						id := msgID(m)
						l.add(event{Kind: "cb-start", Who: name, Msg: id})
						vrt.PointAlways("callback body")
						l.add(event{Kind: "cb-end", Who: name, Msg: id})
					})
				} else {
					err = ask.ServeAsk(ctx, func(ctx context.Context, resp []byte, m p2p.Message[Addr]) int {
						id := msgID(m)
						l.add(event{Kind: "cb-start", Who: name, Msg: id})
						vrt.PointAlways("callback body")
						resp[0], resp[1] = byte(id), 0x77
						l.add(event{Kind: "cb-end", Who: name, Msg: id})
						return 2
					})
				}
				l.add(event{Kind: "recv-ret", Who: name, Err: errStr(err)})
			})
		}
		for _, target := range c.cancel {
			target := target
			vrt.Go("cancel-"+target, func() {
				vrt.PointAlways("cancel " + target)
				l.cancelled[target] = true
				l.add(event{Kind: "cancel", Who: target})
				cancels[target]()
			})
		}
		if c.closer {
			vrt.Go("closer", func() {
				vrt.PointAlways("close")
				l.add(event{Kind: "close-call"})
				if c.kind == "tell" {
					tell.CloseWithError(nil)
				} else {
					ask.CloseWithError(p2p.ErrClosed)
				}
				l.closed = true
				l.add(event{Kind: "close-ret"})
			})
		}
	}
	sc.Check = func(x *vrt.Exec) []explore.Finding { return checkHub(c, x) }
	sc.Outcome = func(x *vrt.Exec) string {
		l := led(x)
		s := ""
		for _, e := range l.events {
			switch e.Kind {
			case "deliver-ret", "recv-ret":
				ok := "ok"
				if e.Err != "" {
					ok = "err"
				}
				s += e.Who + ":" + ok + " "
			case "cb-start":
				s += fmt.Sprintf("%s<-m%d ", e.Who, e.Msg)
			}
		}
		for _, t := range x.Parked() {
			s += "parked:" + t.Name + " "
		}
		return s
	}
	return sc
}

func msgID(m p2p.Message[Addr]) int {
	if len(m.Payload) != 3 || m.Payload[2] != 0x5a || m.Payload[0] != 0xA0+m.Payload[1] || m.Src.N != 100+int(m.Payload[1]) || m.Dst.N != 7 {
		return -1
	}
	return int(m.Payload[1])
}

func checkHub(c hubCfg, x *vrt.Exec) []explore.Finding {
	l := led(x)
	var fs []explore.Finding
	site := map[string]string{"tell": "TellHub", "ask": "AskHub"}[c.kind]
	add := func(kind, detail string) { fs = append(fs, explore.Finding{Kind: kind, Site: site, Detail: detail}) }
	if x.HorizonHit {
		add("step-horizon", "execution did not finish within the step horizon")
		return fs
	}
	cbStart := map[int][]int{} // msg -> event indices
	cbEnd := map[int]int{}
	delivRet := map[int]int{}
	delivErr := map[int]string{}
	recvRet := map[string]int{}
	recvErr := map[string]string{}
	cbBy := map[string][]int{} // receiver -> msgs
	for i, e := range l.events {
		switch e.Kind {
		case "cb-start":
			cbStart[e.Msg] = append(cbStart[e.Msg], i)
			cbBy[e.Who] = append(cbBy[e.Who], e.Msg)
			if e.Msg < 0 {
				add("corrupt-message", "callback saw a message that was never delivered to the hub")
			}
		case "cb-end":
			cbEnd[e.Msg] = i
		case "deliver-ret":
			delivRet[e.Msg] = i
			delivErr[e.Msg] = e.Err
		case "recv-ret":
			recvRet[e.Who] = i
			recvErr[e.Who] = e.Err
		case "bad-response":
			add("wrong-response", fmt.Sprintf("Deliver of message %d returned n=%d with bytes its handler did not write", e.Msg, e.N))
		}
	}
	parked := map[string]*vrt.Thread{}
	for _, t := range x.Parked() {
		parked[t.Name] = t
	}
	for m := 0; m < c.producers; m++ {
		name := fmt.Sprintf("D%d", m)
		if len(cbStart[m]) > 1 {
			add("delivered-twice", fmt.Sprintf("message %d was handed to %d callbacks", m, len(cbStart[m])))
		}
		if ri, returned := delivRet[m]; returned {
			if delivErr[m] == "" {
				if len(cbStart[m]) == 0 {
					add("deliver-ok-without-callback", fmt.Sprintf("Deliver(m%d) returned nil but no callback saw the message", m))
				} else if end, ok := cbEnd[m]; !ok || end > ri {
					add("deliver-returned-before-callback-finished", fmt.Sprintf("Deliver(m%d) returned nil before its callback finished", m))
				}
			} else if len(cbStart[m]) > 0 {
				add("deliver-error-after-handoff", fmt.Sprintf("Deliver(m%d) returned %q although a callback saw the message", m, delivErr[m]))
			}
		} else if t, isParked := parked[name]; isParked {
			// still blocked at quiescence
			if _, ended := cbEnd[m]; ended {
				add("deliver-stuck-after-callback", fmt.Sprintf("Deliver(m%d) still blocked at %s although its callback has finished", m, t.Pending()))
			}
			if l.cancelled[name] && len(cbStart[m]) == 0 {
				add("cancel-ignored", fmt.Sprintf("Deliver(m%d) still blocked at %s although its context was cancelled and nobody took the message", m, t.Pending()))
			}
		}
	}
	for j := 0; j < c.receivers; j++ {
		name := fmt.Sprintf("R%d", j)
		if _, returned := recvRet[name]; returned {
			if recvErr[name] == "" && len(cbBy[name]) != 1 {
				add("receive-ok-without-message", fmt.Sprintf("%s returned nil after %d callbacks", name, len(cbBy[name])))
			}
			if recvErr[name] != "" && len(cbBy[name]) != 0 {
				add("receive-error-after-callback", fmt.Sprintf("%s returned %q after running a callback", name, recvErr[name]))
			}
			if recvErr[name] != "" && l.cancelled[name] && !l.closed && recvErr[name] != context.Canceled.Error() {
				add("wrong-cancel-error", fmt.Sprintf("%s returned %q, want the context's error", name, recvErr[name]))
			}
		} else if t, isParked := parked[name]; isParked {
			if l.cancelled[name] {
				add("cancel-ignored", fmt.Sprintf("%s still blocked at %s although its context was cancelled", name, t.Pending()))
			}
		}
	}
	// stranded message: a parked deliverer and a parked live receiver at quiescence
	if !l.closed {
		for m := 0; m < c.producers; m++ {
			dn := fmt.Sprintf("D%d", m)
			if _, p := parked[dn]; !p || l.cancelled[dn] || len(cbStart[m]) > 0 {
				continue
			}
			for j := 0; j < c.receivers; j++ {
				rn := fmt.Sprintf("R%d", j)
				if _, p := parked[rn]; p && !l.cancelled[rn] && len(cbBy[rn]) == 0 {
					add("message-stranded", fmt.Sprintf("%s and %s are both blocked: the message is lost although a live receiver waits", dn, rn))
				}
			}
		}
	}
	return fs
}

func main() {
	run := evid.Start("C13", "model_checking")
	var scs []*explore.Scenario
	pbQ, pbT := 3, 4
	pb := evid.Pick(run, pbQ, pbT)
	for _, kind := range []string{"tell", "ask"} {
		cfgs := []hubCfg{
			{kind: kind, producers: 1, receivers: 1},
			{kind: kind, producers: 1, receivers: 1, cancel: []string{"R0"}},
			{kind: kind, producers: 1, receivers: 1, cancel: []string{"D0"}},
			{kind: kind, producers: 1, receivers: 2, cancel: []string{"R0"}},
			{kind: kind, producers: 2, receivers: 1},
			{kind: kind, producers: 2, receivers: 2, cancel: []string{"R1"}},
			{kind: kind, producers: 1, receivers: 1, closer: true},
			{kind: kind, producers: 1, receivers: 1, cancel: []string{"R0", "D0"}},
		}
		if run.Thorough() {
			cfgs = append(cfgs,
				hubCfg{kind: kind, producers: 2, receivers: 2, cancel: []string{"R0", "D1"}},
				hubCfg{kind: kind, producers: 2, receivers: 2, cancel: []string{"R0"}, closer: true},
				hubCfg{kind: kind, producers: 2, receivers: 1, cancel: []string{"R0"}, closer: true},
			)
		}
		for _, c := range cfgs {
			scs = append(scs, hubScenario(c, pb))
		}
	}
	qcfgs := []queueCfg{
		{capacity: 1, producers: 1, perProd: 2, receivers: 1},
		{capacity: 1, producers: 2, perProd: 1, receivers: 1},
		{capacity: 2, producers: 1, perProd: 2, receivers: 2},
		{capacity: 2, producers: 2, perProd: 1, receivers: 2, cancel: []string{"R1"}},
		{capacity: 1, producers: 1, perProd: 1, receivers: 1, cancel: []string{"R0"}},
		{capacity: 2, producers: 1, perProd: 2, receivers: 1, purger: true},
		{capacity: 1, producers: 1, perProd: 1, receivers: 1, closer: true},
	}
	if run.Thorough() {
		qcfgs = append(qcfgs,
			queueCfg{capacity: 2, producers: 2, perProd: 2, receivers: 2},
			queueCfg{capacity: 2, producers: 2, perProd: 1, receivers: 1, purger: true, closer: true},
			queueCfg{capacity: 1, producers: 2, perProd: 1, receivers: 2, cancel: []string{"R0"}, closer: true},
		)
	}
	for _, c := range qcfgs {
		scs = append(scs, queueScenario(c, pb))
	}
	scs = append(scs, swarmScenarios(run.Thorough(), evid.Pick(run, 1, 2))...)
	explore.Main(run, scs, evid.Pick(run, 150*time.Second, 20*time.Minute))
	run.Assume("scheduling points at every channel/lock/atomic/select operation; data races are decided separately by C14")
	run.Set("preemption_bound", pb)
	// free-running rows for sshswarm / quicswarm (outside the controlled scheduler)
	if netrows.Run(run) {
		run.Assume("sshswarm and quicswarm rows run free on loopback: Receive / ServeAsk / Ask cancelled before or during the call, and 30 messages told next to a receiver that is cancelled and restarted continuously; waits of 20 s only give up")
	}
	run.Finish()
}
