package main

import (
	"context"
	"fmt"
	"sort"
	"strings"

	"github.com/anishathalye/porcupine"

	"go.brendoncarroll.net/p2p"
	"go.brendoncarroll.net/p2p/s/swarmutil"

	"verifmc/explore"
	"verifmc/hx"
	"verifmc/vrt"
)

type queueCfg struct {
	capacity  int
	producers int // each producer delivers `perProd` messages
	perProd   int
	receivers int
	cancel    []string
	purger    bool
	closer    bool
}

func (c queueCfg) name() string {
	return fmt.Sprintf("queue-cap%d-p%dx%d-r%d-cancel%v-purge%v-close%v", c.capacity, c.producers, c.perProd, c.receivers, c.cancel, c.purger, c.closer)
}

type qledger struct {
	ledger
	ops      []qop
	finalLen int
}

// qop is one completed (or pending) operation for the linearizability check.
type qop struct {
	Client int
	Kind   string // deliver, take, release, purge, close
	Msg    int
	OK     bool
	N      int
	Call   int
	Ret    int
}

func qled(x *vrt.Exec) *qledger { return x.Data.(*qledger) }

func (l *qledger) tick() int { l.cell.Touch(); return len(l.events) }

func queueScenario(c queueCfg, pb int) *explore.Scenario {
	sc := &explore.Scenario{Name: c.name(), PB: pb}
	sc.Setup = func(x *vrt.Exec) {
		x.Data = &qledger{ledger: ledger{cancelled: map[string]bool{}}}
		x.MaxSteps = 3000
	}
	sc.Body = func(x *vrt.Exec) {
		l := qled(x)
		q := swarmutil.NewQueue[Addr](c.capacity, 16)
		cancels := map[string]context.CancelFunc{}
		client := 0
		for i := 0; i < c.producers; i++ {
			i := i
			cl := client
			client++
			name := fmt.Sprintf("D%d", i)
			vrt.Go(name, func() {
				for k := 0; k < c.perProd; k++ {
					id := i*c.perProd + k
					msg := p2p.Message[Addr]{Src: Addr{N: 100 + id}, Dst: Addr{N: 7}, Payload: payload(id)}
					call := l.tick()
					l.add(event{Kind: "deliver-call", Who: name, Msg: id})
					ok := q.Deliver(msg)
					// the caller may reuse its buffer at once
					for b := range msg.Payload {
						msg.Payload[b] = 0xEE
					}
					l.add(event{Kind: "deliver-ret", Who: name, Msg: id, N: b2i(ok)})
					l.ops = append(l.ops, qop{Client: cl, Kind: "deliver", Msg: id, OK: ok, Call: call, Ret: l.tick()})
				}
			})
		}
		for j := 0; j < c.receivers; j++ {
			cl := client
			client++
			name := fmt.Sprintf("R%d", j)
			ctx, cf := hx.WithCancel(context.Background())
			cancels[name] = cf
			vrt.Go(name, func() {
				call := l.tick()
				l.add(event{Kind: "recv-call", Who: name})
				took := -2
				takeAt, endAt := 0, 0
				err := q.Receive(ctx, func(m p2p.Message[Addr]) {
					took = msgID(m)
					takeAt = l.tick()
					l.add(event{Kind: "cb-start", Who: name, Msg: took})
					vrt.PointAlways("callback body")
					if msgID(m) != took {
						l.add(event{Kind: "payload-changed-during-callback", Who: name, Msg: took})
					}
					// the callback may scribble over the message
					for b := range m.Payload {
						m.Payload[b] = 0xDD
					}
					endAt = l.tick()
					l.add(event{Kind: "cb-end", Who: name, Msg: took})
				})
				l.add(event{Kind: "recv-ret", Who: name, Err: errStr(err)})
				if took != -2 {
					l.ops = append(l.ops, qop{Client: cl, Kind: "take", Msg: took, Call: call, Ret: takeAt + 1})
					// the buffer goes back to the freelist somewhere between the end of the
					// callback and the return of Receive
					l.ops = append(l.ops, qop{Client: cl, Kind: "release", Call: endAt, Ret: l.tick()})
				}
			})
		}
		for _, target := range c.cancel {
			target := target
			vrt.Go("cancel-"+target, func() {
				vrt.PointAlways("cancel " + target)
				l.cancelled[target] = true
				l.add(event{Kind: "cancel", Who: target})
				cancels[target]()
			})
		}
		if c.purger {
			cl := client
			client++
			vrt.Go("purger", func() {
				call := l.tick()
				l.add(event{Kind: "purge-call"})
				n := q.Purge()
				l.add(event{Kind: "purge-ret", N: n})
				l.ops = append(l.ops, qop{Client: cl, Kind: "purge", N: n, Call: call, Ret: l.tick()})
			})
		}
		if c.closer {
			cl := client
			client++
			vrt.Go("closer", func() {
				vrt.PointAlways("close")
				// Close is not atomic with respect to Deliver (its select may still take a free
				// slot after the closed channel is closed, and Close drains concurrently), so the
				// model sees it as two instants: the call, from which on a Deliver may go either
				// way, and the return, after which every Deliver must be refused.
				call := l.tick()
				l.ops = append(l.ops, qop{Client: cl, Kind: "close-begin", Call: call, Ret: l.tick()})
				l.add(event{Kind: "close-call"})
				q.Close()
				l.closed = true
				l.add(event{Kind: "close-ret"})
				end := l.tick()
				l.ops = append(l.ops, qop{Client: cl, Kind: "close-end", Call: end, Ret: l.tick()})
			})
		}
	}
	sc.Check = func(x *vrt.Exec) []explore.Finding { return checkQueue(c, x) }
	sc.Outcome = func(x *vrt.Exec) string {
		l := qled(x)
		s := ""
		for _, e := range l.events {
			switch e.Kind {
			case "deliver-ret":
				s += fmt.Sprintf("%s:m%d=%d ", e.Who, e.Msg, e.N)
			case "recv-ret":
				ok := "ok"
				if e.Err != "" {
					ok = "err"
				}
				s += e.Who + ":" + ok + " "
			case "cb-start":
				s += fmt.Sprintf("%s<-m%d ", e.Who, e.Msg)
			case "purge-ret":
				s += fmt.Sprintf("purge=%d ", e.N)
			}
		}
		for _, t := range x.Parked() {
			s += "parked:" + t.Name + " "
		}
		return s
	}
	return sc
}

func b2i(b bool) int {
	if b {
		return 1
	}
	return 0
}

type qstate struct {
	items    string // msg ids as bytes
	inflight int
	phase    int // 0 open, 1 closing (Close called), 2 closed (Close returned)
}

func queueModel(capacity int) porcupine.Model {
	return porcupine.Model{
		Init: func() interface{} { return qstate{} },
		Step: func(st, in, out interface{}) (bool, interface{}) {
			s := st.(qstate)
			o := in.(qop)
			switch o.Kind {
			case "deliver":
				full := len(s.items)+s.inflight >= capacity
				switch s.phase {
				case 0:
					if o.OK {
						if full {
							return false, s
						}
						s.items += string(rune(o.Msg + 1))
						return true, s
					}
					return full, s
				case 1:
					// while Close runs a Deliver may be refused or may still be accepted
					if o.OK {
						if full {
							return false, s
						}
						s.items += string(rune(o.Msg + 1))
					}
					return true, s
				default:
					return !o.OK, s
				}
			case "take":
				i := strings.IndexRune(s.items, rune(o.Msg+1))
				if i < 0 || (i > 0 && s.phase == 0) {
					return false, s
				}
				// while Close drains the queue, messages ahead of this one may have been discarded
				s.items = s.items[i+1:]
				s.inflight++
				return true, s
			case "release":
				s.inflight--
				return true, s
			case "purge":
				// Purge drains what it sees; it may interleave with deliveries, so it is only
				// required to remove a prefix of length N
				if o.N > len(s.items) {
					return false, s
				}
				s.items = s.items[o.N:]
				return true, s
			case "close-begin":
				s.phase = 1
				return true, s
			case "close-end":
				s.phase = 2
				s.items = ""
				return true, s
			}
			return false, s
		},
		Equal: func(a, b interface{}) bool { return a.(qstate) == b.(qstate) },
	}
}

func checkQueue(c queueCfg, x *vrt.Exec) []explore.Finding {
	l := qled(x)
	var fs []explore.Finding
	add := func(kind, detail string) { fs = append(fs, explore.Finding{Kind: kind, Site: "Queue", Detail: detail}) }
	if x.HorizonHit {
		add("step-horizon", "execution did not finish within the step horizon")
		return fs
	}
	accepted := map[int]bool{}
	rejected := map[int]bool{}
	seen := map[int]int{}
	cbBy := map[string][]int{}
	recvErr := map[string]string{}
	returned := map[string]bool{}
	purged := 0
	for _, e := range l.events {
		switch e.Kind {
		case "deliver-ret":
			if e.N == 1 {
				accepted[e.Msg] = true
			} else {
				rejected[e.Msg] = true
			}
		case "cb-start":
			seen[e.Msg]++
			cbBy[e.Who] = append(cbBy[e.Who], e.Msg)
			if e.Msg < 0 {
				add("corrupt-message", fmt.Sprintf("%s saw a payload/address that was never delivered (sender overwrote its buffer after Deliver returned, or buffers were mixed)", e.Who))
			}
		case "payload-changed-during-callback":
			add("buffer-shared-during-callback", fmt.Sprintf("message %d changed while %s's callback was running", e.Msg, e.Who))
		case "recv-ret":
			recvErr[e.Who] = e.Err
			returned[e.Who] = true
		case "purge-ret":
			purged += e.N
		}
	}
	ids := make([]int, 0, len(seen))
	for id := range seen {
		ids = append(ids, id)
	}
	sort.Ints(ids)
	for _, id := range ids {
		if id < 0 {
			continue
		}
		if seen[id] > 1 {
			add("delivered-twice", fmt.Sprintf("message %d was handed to %d callbacks", id, seen[id]))
		}
		if rejected[id] {
			add("rejected-message-delivered", fmt.Sprintf("Deliver(m%d) returned false but a callback saw it", id))
		}
	}
	parked := map[string]*vrt.Thread{}
	for _, t := range x.Parked() {
		parked[t.Name] = t
	}
	unseen := 0
	for id := range accepted {
		if seen[id] == 0 {
			unseen++
		}
	}
	for j := 0; j < c.receivers; j++ {
		name := fmt.Sprintf("R%d", j)
		if returned[name] {
			if recvErr[name] == "" && len(cbBy[name]) != 1 {
				add("receive-ok-without-message", fmt.Sprintf("%s returned nil after %d callbacks", name, len(cbBy[name])))
			}
			if recvErr[name] != "" && len(cbBy[name]) != 0 {
				add("receive-error-after-callback", fmt.Sprintf("%s returned %q after running a callback", name, recvErr[name]))
			}
		} else if t, p := parked[name]; p {
			if l.cancelled[name] {
				add("cancel-ignored", fmt.Sprintf("%s still blocked at %s although its context was cancelled", name, t.Pending()))
			} else if l.closed {
				// decided by C12; not part of this property's oracle
			} else if unseen-purged > 0 {
				add("message-stranded", fmt.Sprintf("%s is blocked although %d accepted messages were neither received nor purged", name, unseen-purged))
			}
		}
	}
	// NOTE: a Purge racing with a Receive can block in `<-q.queue` after its len() check
	// (observed: "purger blocked at recv"). That is a defect of Purge but not part of this
	// property's statement, so it is not reported here (DESIGN.md section 8).
	for i := 0; i < c.producers; i++ {
		if t, p := parked[fmt.Sprintf("D%d", i)]; p {
			add("operation-blocked", fmt.Sprintf("non-blocking Deliver blocked at %s", t.Pending()))
		}
	}
	// linearizability of the complete history against a bounded FIFO
	// (a purger that is still blocked inside Purge - see the note above - has removed messages
	// without its operation ever returning: the recorded history is then incomplete and is not
	// judged)
	if _, purgerStuck := parked["purger"]; len(fs) == 0 && len(parkedProducers(c, parked)) == 0 && !purgerStuck {
		var ops []porcupine.Operation
		for _, o := range l.ops {
			ops = append(ops, porcupine.Operation{ClientId: o.Client, Input: o, Call: int64(o.Call), Output: o, Return: int64(o.Ret)})
		}
		if !porcupine.CheckOperations(queueModel(c.capacity), ops) {
			add("not-linearizable", fmt.Sprintf("history %v is not linearizable against a bounded FIFO of capacity %d", l.ops, c.capacity))
		}
	}
	return fs
}

func parkedProducers(c queueCfg, parked map[string]*vrt.Thread) []string {
	var out []string
	for i := 0; i < c.producers; i++ {
		if _, p := parked[fmt.Sprintf("D%d", i)]; p {
			out = append(out, fmt.Sprintf("D%d", i))
		}
	}
	return out
}
