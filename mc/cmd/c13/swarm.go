package main

import (
	"context"
	"errors"
	"fmt"
	"strings"
	"time"

	"go.brendoncarroll.net/p2p"

	"verifmc/explore"
	"verifmc/hx"
	"verifmc/stacks"
	"verifmc/vrt"
)

// Swarm-level rows of C13: the cancellation contract of Receive / ServeAsk / Ask on whole
// stacks (the hubs and the queue are covered by the hub/queue scenarios): a call whose
// context is cancelled returns, with the context's error unless it completed; one message
// reaches exactly one callback and is not lost because a competing receiver was cancelled.

type swarmCfg struct {
	stack   stacks.Config
	mode    string // receive | serve | ask
	teller  bool   // a peer tells (asks) one message concurrently
	live    bool   // a second receiver with a live context
	settle  bool   // receivers reach their blocking point before cancel/tell are released
	horizon time.Duration
}

func (c swarmCfg) name() string {
	return fmt.Sprintf("swarm-%s-%s-teller%v-live%v-settle%v", c.stack.Kind, c.mode, c.teller, c.live, c.settle)
}

type swarmLedger struct {
	cell      hx.Cell
	ret       map[string]string // thread -> error text ("" = nil)
	retErr    map[string]error
	returned  map[string]bool
	cbs       map[string]int
	cbTotal   int
	badMsg    int
	cancelled bool
	teardown  bool
	canceller bool
}

const swarmPayload = "c13-swarm-message"

func swarmScenario(c swarmCfg, pb int) *explore.Scenario {
	sc := &explore.Scenario{Name: c.name(), PB: pb}
	sc.Setup = func(x *vrt.Exec) {
		x.Data = &swarmLedger{ret: map[string]string{}, retErr: map[string]error{}, returned: map[string]bool{}, cbs: map[string]int{}}
		x.MaxSteps = 20000
		x.TimerHorizon = c.horizon
		x.NumWorkers = 1
	}
	sc.Body = func(x *vrt.Exec) {
		l := x.Data.(*swarmLedger)
		x.NoBranch = true
		st := stacks.Build(c.stack)
		x.NoBranch = false
		target, peer := st.Nodes[0], st.Nodes[1]
		bg, cancelAll := hx.WithCancel(context.Background())
		victimCtx, cancelVictim := hx.WithCancel(bg)
		done := func(name string, err error) {
			l.cell.Touch()
			l.returned[name] = true
			l.retErr[name] = err
			if err != nil {
				l.ret[name] = err.Error()
			}
		}
		onMsg := func(name string, m stacks.Msg) {
			l.cell.Touch()
			l.cbs[name]++
			l.cbTotal++
			if string(m.Payload) != swarmPayload {
				l.badMsg++
			}
			vrt.PointAlways("callback body")
		}
		receive := func(name string, ctx context.Context) {
			vrt.Go(name, func() {
				done(name, target.Receive(ctx, func(m stacks.Msg) { onMsg(name, m) }))
			})
		}
		serve := func(name string, ctx context.Context) {
			vrt.Go(name, func() {
				done(name, target.ServeAsk(ctx, func(_ context.Context, resp []byte, m stacks.Msg) int {
					onMsg(name, m)
					return copy(resp, "ok")
				}))
			})
		}
		switch c.mode {
		case "receive":
			receive("V", victimCtx)
			if c.live {
				receive("L", bg)
			}
		case "serve":
			serve("V", victimCtx)
			if c.live {
				serve("L", bg)
			}
		case "ask":
			// the victim is the asker; the target serves
			serve("L", bg)
		}
		if c.settle {
			x.Settle()
		}
		switch {
		case c.mode == "ask":
			vrt.Go("V", func() {
				resp := make([]byte, 8)
				_, err := peer.Ask(victimCtx, resp, 0, p2p.IOVec{[]byte(swarmPayload)})
				done("V", err)
			})
		case c.teller && c.mode == "receive":
			vrt.Go("T", func() { done("T", peer.Tell(bg, 0, p2p.IOVec{[]byte(swarmPayload)})) })
		case c.teller && c.mode == "serve":
			vrt.Go("T", func() {
				resp := make([]byte, 8)
				_, err := peer.Ask(bg, resp, 0, p2p.IOVec{[]byte(swarmPayload)})
				done("T", err)
			})
		}
		vrt.Go("canceller", func() {
			vrt.PointAlways("cancel the victim's context")
			l.cell.Touch()
			l.cancelled = true
			cancelVictim()
			l.cell.Touch()
			l.canceller = true
		})
		vrt.Go("finalizer", func() {
			hx.WaitUntil(&l.cell, "finalizer: wait for the contract to be met", func() bool {
				if !l.canceller || !l.returned["V"] {
					return false
				}
				if _, has := l.returned["T"]; c.teller && c.mode != "ask" && !has {
					return false
				}
				// a told message with a live receiver waiting must arrive before tear-down
				if c.teller && c.live && l.ret["T"] == "" && l.cbTotal == 0 {
					return false
				}
				return true
			})
			x.NoBranch = true
			l.teardown = true
			cancelAll()
			target.Close()
			peer.Close()
			for _, cl := range st.Underlying {
				cl()
			}
		})
	}
	sc.Check = func(x *vrt.Exec) []explore.Finding { return checkSwarm(c, x) }
	sc.Outcome = func(x *vrt.Exec) string {
		l := x.Data.(*swarmLedger)
		s := fmt.Sprintf("cbs=%d ", l.cbTotal)
		for _, n := range []string{"V", "L", "T"} {
			if l.returned[n] {
				if l.ret[n] == "" {
					s += n + ":nil "
				} else {
					s += n + ":err "
				}
			}
		}
		if !l.teardown {
			for _, t := range x.Parked() {
				s += "parked:" + t.Name + " "
			}
		}
		return s
	}
	return sc
}

func checkSwarm(c swarmCfg, x *vrt.Exec) []explore.Finding {
	l := x.Data.(*swarmLedger)
	site := c.stack.Kind
	var fs []explore.Finding
	add := func(kind, detail string) {
		fs = append(fs, explore.Finding{Kind: kind, Site: site, Detail: c.name() + ": " + detail})
	}
	if x.HorizonHit {
		add("step-horizon", "execution did not finish within the step horizon")
		return fs
	}
	what := map[string]string{"receive": "Receive", "serve": "ServeAsk", "ask": "Ask"}[c.mode]
	parked := map[string]*vrt.Thread{}
	for _, t := range x.Parked() {
		parked[t.Name] = t
	}
	if l.badMsg > 0 {
		add("corrupt-message", "a callback saw a payload nobody sent")
	}
	if l.cbTotal > 1 {
		add("delivered-twice", fmt.Sprintf("one message was handed to %d callbacks", l.cbTotal))
	}
	if !l.returned["V"] {
		if t, ok := parked["V"]; ok && l.canceller {
			add("cancel-ignored", fmt.Sprintf("%s is still blocked at %s although its context was cancelled", what, t.Pending()))
		}
	} else if err := l.retErr["V"]; err != nil {
		if c.mode != "ask" && l.cbs["V"] > 0 {
			add("receive-error-after-callback", fmt.Sprintf("%s returned %q after running its callback", what, err))
		}
		if !errors.Is(err, context.Canceled) && !strings.Contains(err.Error(), context.Canceled.Error()) {
			add("wrong-cancel-error", fmt.Sprintf("%s returned %q before anything was closed, want the context's error", what, err))
		}
	} else if c.mode != "ask" && l.cbs["V"] != 1 {
		add("receive-ok-without-message", fmt.Sprintf("%s returned nil after %d callbacks", what, l.cbs["V"]))
	}
	// a message told successfully while a live receiver waits must not be lost
	if c.teller && c.live && c.mode != "ask" && !l.teardown && l.returned["T"] && l.ret["T"] == "" && l.cbTotal == 0 {
		if t, ok := parked["L"]; ok {
			add("message-lost-next-to-cancelled-receiver", fmt.Sprintf("the peer's call succeeded, the cancelled %s returned without the message and the live one is still blocked at %s", what, t.Pending()))
		}
	}
	return fs
}

func swarmScenarios(thorough bool, pb int) []*explore.Scenario {
	mk := func(kind string) stacks.Config {
		c := stacks.Config{Kind: kind, N: 2}
		switch kind {
		case "frag", "mux-frag":
			c.InnerMTU, c.MTU = 40, 100
		case "mbapp", "mbapp-mux":
			c.InnerMTU, c.MTU = 64, 200
		case "frag-p2pke":
			c.MTU = 1 << 17
		}
		return c
	}
	hasAsk := map[string]bool{"mem": true, "mbapp": true, "wl": true, "multi-ask": true}
	kinds := []string{"mem", "udp", "frag", "mbapp", "mux-string", "multi", "wl", "p2pke"}
	if thorough {
		kinds = append(kinds, "map", "multi-ask", "p2pke-udp", "mux-frag", "mbapp-mux")
	}
	var scs []*explore.Scenario
	for _, k := range kinds {
		h := 90 * time.Second
		if strings.Contains(k, "p2pke") {
			h = time.Second
		}
		heavy := strings.Contains(k, "p2pke") || strings.Contains(k, "mbapp")
		light := k == "mem" || k == "udp" || k == "wl" || k == "map"
		scs = append(scs, swarmScenario(swarmCfg{stack: mk(k), mode: "receive", teller: true, live: !heavy, settle: !light, horizon: h}, pb))
		if !heavy {
			scs = append(scs, swarmScenario(swarmCfg{stack: mk(k), mode: "receive", settle: true, horizon: h}, pb))
		}
		if hasAsk[k] {
			scs = append(scs, swarmScenario(swarmCfg{stack: mk(k), mode: "serve", teller: true, live: !heavy, settle: !light, horizon: h}, pb))
			scs = append(scs, swarmScenario(swarmCfg{stack: mk(k), mode: "ask", settle: true, horizon: h}, pb))
		}
	}
	return scs
}
