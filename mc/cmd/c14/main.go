// C14: concurrent use is free of data races and callbacks own their buffers.
// The controlled-scheduler harnesses are built with -race. The cooperative baton is hidden
// from the detector (runtime.RaceDisable around every hand-off) and the shims re-create
// exactly the happens-before edges of the operations they replace (RaceAcquire/Release),
// so for every explored schedule the detector reports the pairs of conflicting accesses
// that the program's own synchronisation does not order.
package main

import (
	"context"
	"fmt"
	"os"
	"path/filepath"
	"regexp"
	"sort"
	"strings"
	"time"

	"go.brendoncarroll.net/p2p"
	"go.brendoncarroll.net/p2p/f/x509"
	"go.brendoncarroll.net/p2p/p/kademlia"
	"go.brendoncarroll.net/p2p/p/mbapp"
	"go.brendoncarroll.net/p2p/p/p2pke"
	"go.brendoncarroll.net/p2p/s/memswarm"
	"go.brendoncarroll.net/p2p/s/p2pkeswarm"
	"go.brendoncarroll.net/p2p/s/swarmutil"

	"verifmc/evid"
	"verifmc/explore"
	"verifmc/hx"
	"verifmc/netrows"
	"verifmc/pk"
	"verifmc/sc/c01"
	"verifmc/stacks"
	"verifmc/vrt"
	"verifmc/vrt/vctx"
	"verifmc/vrt/vsync"
)

type Addr = memswarm.Addr

func simple(name string, pb int, body func(x *vrt.Exec)) *explore.Scenario {
	sc := &explore.Scenario{Name: name, PB: pb}
	sc.Setup = func(x *vrt.Exec) {
		x.MaxSteps = 20000
		x.TimerHorizon = 0
	}
	sc.Body = body
	sc.Check = func(x *vrt.Exec) []explore.Finding {
		if x.HorizonHit {
			return []explore.Finding{{Kind: "step-horizon", Site: name, Detail: "did not finish"}}
		}
		if s, ok := x.Data.(string); ok && strings.HasPrefix(s, "vacuous") {
			return []explore.Finding{{Kind: "scenario-vacuous", Site: name, Detail: s}}
		}
		if s, ok := x.Data.(string); ok && strings.HasPrefix(s, "changed") {
			return []explore.Finding{{Kind: "payload-changed-during-callback", Site: name, Detail: s}}
		}
		return nil
	}
	return sc
}

var t0 = time.Unix(1_700_000_000, 0)

func extraScenarios(pb int) []*explore.Scenario {
	var out []*explore.Scenario
	// kademlia cache: concurrent Put / Get / Count / IsFull / Expire / ForEach
	{
		// kademlia cache: concurrent Put / Update / Get / Count / IsFull / Expire / Delete and two
		// nearest-first readers; afterwards the cache must still be a faithful bounded map
		// (Count equals what it holds, never more than its capacity)
		type audit struct{ count, held int }
		sc := simple("kademlia-cache-concurrent", pb, func(x *vrt.Exec) {
			c := kademlia.NewCache[int]([]byte{0}, 2, 0)
			var wg vsync.WaitGroup // orders the audit after the workers for the race detector as well
			spawn := func(name string, fn func()) {
				wg.Add(1)
				vrt.Go(name, func() { defer wg.Done(); fn() })
			}
			spawn("put", func() { c.Put([]byte{0x80}, 1, t0, t0.Add(time.Second)); c.Put([]byte{0x40}, 2, t0, time.Time{}) })
			spawn("put2", func() { c.Put([]byte{0x20}, 3, t0, time.Time{}); c.Put([]byte{0x80}, 4, t0, t0.Add(time.Second)) })
			spawn("read", func() {
				c.Get([]byte{0x80}, t0)
				c.Count()
				c.IsFull()
				c.Closest([]byte{0x01})
				c.ForEach([]byte{0x80}, func(kademlia.Entry[int]) bool { return true })
			})
			spawn("read2", func() { c.ForEach([]byte{0xc0}, func(kademlia.Entry[int]) bool { return true }) })
			spawn("expire", func() { c.Expire(nil, t0.Add(2*time.Second)); c.Delete([]byte{0x40}) })
			vrt.Go("audit", func() {
				wg.Wait()
				a := audit{count: c.Count()}
				c.ForEach([]byte{0}, func(kademlia.Entry[int]) bool { a.held++; return true })
				x.Data = a
			})
		})
		inner := sc.Check
		sc.Check = func(x *vrt.Exec) []explore.Finding {
			fs := inner(x)
			if a, ok := x.Data.(audit); ok && len(fs) == 0 && (a.count != a.held || a.held > 2) {
				fs = append(fs, explore.Finding{Kind: "cache-count-drifted", Site: "kademlia.Cache", Detail: fmt.Sprintf("after concurrent Put/Expire/Delete: Count()=%d, the cache holds %d entries, capacity 2", a.count, a.held)})
			}
			return fs
		}
		out = append(out, sc)
	}
	out = append(out, simple("kademlia-dhtnode-concurrent", pb, func(x *vrt.Exec) {
		n := kademlia.NewDHTNode(kademlia.DHTNodeParams{LocalID: p2p.PeerID{1}, PeerCacheSize: 300, DataCacheSize: 4})
		vrt.Go("add", func() { n.AddPeer(p2p.PeerID{0x80}, []byte("a")); n.AddPeer(p2p.PeerID{0x40}, []byte("b")) })
		vrt.Go("list", func() { n.ListNodeInfos([]byte{0x80}, 3); n.HasPeer(p2p.PeerID{0x80}); n.Count() })
		vrt.Go("put", func() {
			n.HandlePut(p2p.PeerID{9}, kademlia.PutReq{Key: []byte{0x11}, Value: []byte("v"), TTLms: 1000})
			n.WouldAdd([]byte{0x12})
		})
		vrt.Go("get", func() {
			n.HandleGet(p2p.PeerID{9}, kademlia.GetReq{Key: []byte{0x11}})
			n.HandleFindNode(p2p.PeerID{9}, kademlia.FindNodeReq{Target: p2p.PeerID{0x80}, Limit: 3})
		})
	}))
	// bare hubs and queue
	out = append(out, simple("tellhub-concurrent", pb, func(x *vrt.Exec) {
		h := swarmutil.NewTellHub[Addr]()
		bg := context.Background()
		ctx, cf := hx.WithCancel(bg)
		for i := 0; i < 2; i++ {
			i := i
			vrt.Go("deliver", func() {
				buf := []byte{byte(i), 1, 2}
				h.Deliver(ctx, p2p.Message[Addr]{Src: Addr{N: i}, Payload: buf})
				// Deliver returned: the buffer is the deliverer's again
				for k := range buf {
					buf[k] = 0xEE
				}
			})
		}
		for i := 0; i < 2; i++ {
			i := i
			vrt.Go("receive", func() {
				h.Receive(ctx, func(m p2p.Message[Addr]) {
					// callbacks of different durations that use the whole message: until the
					// callback returns the message must not change (the deliverer scribbles
					// over its buffer as soon as Deliver has returned)
					first := string(m.Payload)
					if i == 0 {
						vrt.PointAlways("slow callback")
						vrt.PointAlways("slow callback")
					}
					if string(m.Payload) != first {
						x.Data = fmt.Sprintf("changed: the message read %x when the callback started and %x before it returned", first, m.Payload)
					}
				})
			})
		}
		vrt.Go("closer", func() { vrt.PointAlways("close"); h.CloseWithError(nil); cf() })
	}))
	out = append(out, simple("askhub-concurrent", pb, func(x *vrt.Exec) {
		h := swarmutil.NewAskHub[Addr]()
		bg := context.Background()
		ctx, cf := hx.WithCancel(bg)
		for i := 0; i < 2; i++ {
			i := i
			vrt.Go("deliver", func() {
				resp := make([]byte, 4)
				n, err := h.Deliver(ctx, resp, p2p.Message[Addr]{Src: Addr{N: i}, Payload: []byte{byte(i)}})
				if err == nil && n > 0 {
					_ = resp[0]
				}
			})
		}
		for i := 0; i < 2; i++ {
			vrt.Go("serve", func() {
				h.ServeAsk(ctx, func(_ context.Context, resp []byte, m p2p.Message[Addr]) int { resp[0] = m.Payload[0]; return 1 })
			})
		}
		vrt.Go("closer", func() { vrt.PointAlways("close"); h.CloseWithError(p2p.ErrClosed); cf() })
	}))
	out = append(out, simple("queue-concurrent", pb, func(x *vrt.Exec) {
		q := swarmutil.NewQueue[Addr](2, 16)
		bg := context.Background()
		ctx, cf := hx.WithCancel(bg)
		for i := 0; i < 2; i++ {
			i := i
			vrt.Go("deliver", func() {
				buf := []byte{byte(i), 1, 2}
				q.Deliver(p2p.Message[Addr]{Src: Addr{N: i}, Payload: buf})
				buf[0] = 0xEE
				q.DeliverVec(Addr{N: i}, Addr{N: 9}, p2p.IOVec{buf})
				q.Len()
			})
		}
		for i := 0; i < 2; i++ {
			vrt.Go("receive", func() {
				q.Receive(ctx, func(m p2p.Message[Addr]) { m.Payload[0] = 7 })
			})
		}
		vrt.Go("closer", func() { vrt.PointAlways("close"); q.IsClosed(); q.Close(); cf() })
	}))
	// p2pke.Channel: two concurrent Sends, Deliver and RemoteKey/LastReceived readers
	out = append(out, simple("p2pke-channel-concurrent", pb, func(x *vrt.Exec) {
		pk.SeedRandom(3, nil)
		defer pk.RestoreRandom()
		var a, b *p2pke.Channel
		all := func(*x509.PublicKey) bool { return true }
		var toB, toA [][]byte
		var netMu vsync.Mutex // the harness transport is a properly synchronised queue
		a = p2pke.NewChannel(p2pke.ChannelConfig{PrivateKey: pk.Key(0), Logger: pk.Nop, AcceptKey: all, Send: func(m []byte) {
			netMu.Lock()
			toB = append(toB, append([]byte{}, m...))
			netMu.Unlock()
		}})
		b = p2pke.NewChannel(p2pke.ChannelConfig{PrivateKey: pk.Key(1), Logger: pk.Nop, AcceptKey: all, Send: func(m []byte) {
			netMu.Lock()
			toA = append(toA, append([]byte{}, m...))
			netMu.Unlock()
		}})
		// establish deterministically
		x.NoBranch = true
		bg := context.Background()
		ctx, cf := hx.WithCancel(bg)
		defer cf()
		sent, gotHello := false, false
		vrt.Go("first-send", func() { sent = a.Send(ctx, p2p.IOVec{[]byte("hello")}) == nil })
		for round := 0; round < 60; round++ {
			x.Settle()
			if when, ok := x.NextTimer(); ok && when <= x.Now {
				x.FireNextTimer()
				continue
			}
			netMu.Lock()
			var mb, ma []byte
			if len(toB) > 0 {
				mb, toB = toB[0], toB[1:]
			} else if len(toA) > 0 {
				ma, toA = toA[0], toA[1:]
			}
			netMu.Unlock()
			if mb != nil {
				if out, err := b.Deliver(nil, mb); err == nil && string(out) == "hello" {
					gotHello = true
				}
				continue
			}
			if ma != nil {
				a.Deliver(nil, ma)
				continue
			}
			break
		}
		if !sent || !gotHello {
			x.Data = fmt.Sprintf("vacuous: the channel was not established before the explored phase (first Send returned: %v, b received it: %v)", sent, gotHello)
			return
		}
		x.NoBranch = false
		// the explored phase: concurrent API calls on one established channel
		ct, _ := func() ([]byte, error) { return nil, nil }()
		_ = ct
		vrt.Go("send1", func() { a.Send(ctx, p2p.IOVec{[]byte("one")}) })
		vrt.Go("send2", func() { a.Send(ctx, p2p.IOVec{[]byte("two")}) })
		vrt.Go("reader", func() { a.RemoteKey(); a.LastReceived(); a.LastSent(); a.LocalKey() })
		vrt.Go("timers", func() {
			// the rekey / handshake timer callbacks run concurrently with the API calls
			for i := 0; i < 2; i++ {
				vrt.PointAlways("fire timer")
				x.FireNextTimer()
			}
		})
		vrt.Go("deliver", func() {
			bctx, bcf := hx.WithCancel(bg)
			defer bcf()
			b.Send(bctx, p2p.IOVec{[]byte("from-b")})
			netMu.Lock()
			var last []byte
			if len(toA) > 0 {
				last = toA[len(toA)-1]
			}
			netMu.Unlock()
			if last != nil {
				a.Deliver(nil, last)
			}
		})
	}))
	// p2pkeswarm: LookupPublicKey / LocalAddrs / Tell / Close concurrently
	out = append(out, simple("p2pkeswarm-api-concurrent", pb, func(x *vrt.Exec) {
		pk.SeedRandom(4, nil)
		defer pk.RestoreRandom()
		r := memswarm.NewRealm(memswarm.WithQueueLen(32))
		a := p2pkeswarm.New[Addr](r.NewSwarm(), stacks.TestKey(0))
		b := p2pkeswarm.New[Addr](r.NewSwarm(), stacks.TestKey(1))
		c := p2pkeswarm.New[Addr](r.NewSwarm(), stacks.TestKey(2))
		bg := context.Background()
		ctx, cf := hx.WithCancel(bg)
		dst := b.LocalAddrs()[0]

		vrt.Go("recv", func() {
			b.Receive(ctx, func(m p2p.Message[p2pkeswarm.Addr[Addr]]) {
				p2p.LookupPublicKeyInHandler[p2pkeswarm.Addr[Addr], x509.PublicKey](b, m.Src)
			})
		})
		// establish a <-> b deterministically (the handshake is started by a zero-delay timer,
		// which this scenario fires by hand: its horizon keeps every later timer quiet)
		x.NoBranch = true
		warm := false
		vrt.Go("warm-up", func() { warm = a.Tell(ctx, dst, p2p.IOVec{[]byte("warm")}) == nil })
		for i := 0; i < 40 && !warm; i++ {
			x.Settle()
			if when, ok := x.NextTimer(); ok && when <= x.Now {
				x.FireNextTimer()
			}
		}
		x.Settle()
		if !warm {
			x.Data = "vacuous: the warm-up Tell did not complete"
			return
		}
		x.NoBranch = false
		// a peer A has never seen contacts it while A is busy with its own calls
		vrt.Go("newcomer", func() { c.Tell(ctx, a.LocalAddrs()[0], p2p.IOVec{[]byte("hi")}) })
		vrt.Go("tell", func() { a.Tell(ctx, dst, p2p.IOVec{[]byte("x")}) })
		vrt.Go("lookup", func() { a.LookupPublicKey(ctx, dst); a.LocalAddrs(); a.PublicKey(); a.MTU() })
		vrt.Go("closer", func() { vrt.PointAlways("close"); a.Close(); cf(); b.Close(); c.Close() })
	}))
	// mbapp: one two-part message reassembled by two receive workers (each worker may hold one
	// part); the callback reads the whole payload
	out = append(out, simple("mbapp-multipart-two-workers", pb, func(x *vrt.Exec) {
		x.NumWorkers = 2
		st := stacks.Build(stacks.Config{Kind: "mbapp", N: 2, InnerMTU: 64, MTU: 200, Workers: 2})
		bg := context.Background()
		ctx, cf := hx.WithCancel(bg)
		sum := 0
		vrt.Go("recv", func() {
			st.Nodes[0].Receive(ctx, func(m stacks.Msg) {
				for _, c := range m.Payload {
					sum += int(c)
				}
			})
			x.NoBranch = true
			cf()
			for _, n := range st.Nodes {
				n.Close()
			}
		})
		x.Settle()
		vrt.Go("tell", func() {
			payload := make([]byte, 70) // part = 40: two parts
			for i := range payload {
				payload[i] = byte(i + 1)
			}
			st.Nodes[1].Tell(bg, 0, p2p.IOVec{payload})
		})
	}))
	// mbapp: two concurrent asks to one server with two receive workers
	out = append(out, simple("mbapp-asks-concurrent", pb, func(x *vrt.Exec) {
		x.NumWorkers = 2
		st := stacks.Build(stacks.Config{Kind: "mbapp", N: 3, InnerMTU: 64, MTU: 200, Workers: 2})
		bg := context.Background()
		ctx, cf := hx.WithCancel(bg)
		for j := 0; j < 2; j++ {
			vrt.Go("serve", func() {
				for {
					if err := st.Nodes[0].ServeAsk(ctx, func(_ context.Context, resp []byte, m stacks.Msg) int {
						return copy(resp, m.Payload)
					}); err != nil {
						return
					}
				}
			})
		}
		x.Settle()
		done := 0
		for i := 1; i <= 2; i++ {
			i := i
			vrt.Go("ask", func() {
				buf := make([]byte, 16)
				st.Nodes[1].Ask(ctx, buf, 0, p2p.IOVec{[]byte{byte(i), 2, 3}}) // both asks share one asker table
				done++
				if done == 2 {
					x.NoBranch = true
					cf()
					for _, n := range st.Nodes {
						n.Close()
					}
				}
			})
		}
	}))
	// callbacks own their buffers: an ask whose deadline expires while its handler is still
	// running, followed by more traffic for the same receive worker. The handler re-reads
	// its message after the later traffic has been processed.
	for _, stackKind := range []string{"mbapp", "mem"} {
		stackKind := stackKind
		name := stackKind + "-ask-deadline-expires-in-handler"
		type res struct {
			cell          hx.Cell
			inHandler     bool
			laterSent     bool
			before, after string
		}
		sc := &explore.Scenario{Name: name, PB: pb}
		sc.Setup = func(x *vrt.Exec) {
			x.MaxSteps = 20000
			x.TimerHorizon = 10 * time.Second
			x.AutoTimers = true
			x.NumWorkers = 1
			x.Data = &res{}
		}
		sc.Body = func(x *vrt.Exec) {
			r := x.Data.(*res)
			x.NoBranch = true
			mbapp.VerifSetDisableFastPath(false) // production default: single-part messages alias the worker's buffer
			st := stacks.Build(stacks.Config{Kind: stackKind, N: 2, MTU: 1 << 16, Workers: 1})
			bg, cf := hx.WithCancel(context.Background())
			vrt.Go("serve", func() {
				st.Nodes[0].ServeAsk(bg, func(_ context.Context, resp []byte, m stacks.Msg) int {
					r.cell.Touch()
					r.before = string(m.Payload)
					r.inHandler = true
					// a slow handler: still at work when the asker has given up and sent more
					hx.WaitUntil(&r.cell, "handler: slow", func() bool { return r.laterSent })
					r.after = string(m.Payload)
					return copy(resp, "late")
				})
			})
			vrt.Go("receive", func() {
				for st.Nodes[0].Receive(bg, func(stacks.Msg) {}) == nil {
				}
			})
			vrt.Go("asker", func() {
				ctx, cancel := vctx.WithTimeout(bg, time.Second)
				defer cancel()
				buf := make([]byte, 16)
				st.Nodes[1].Ask(ctx, buf, 0, p2p.IOVec{[]byte("AAAAAAAAAAAAAAAA")})
				for i := 0; i < 2; i++ {
					st.Nodes[1].Tell(bg, 0, p2p.IOVec{[]byte("BBBBBBBBBBBBBBBB")})
				}
				// let the deadline the ask carried pass on the server as well
				x.SettleUntil(3 * time.Second)
				r.cell.Touch()
				r.laterSent = true
				x.Settle()
				x.NoBranch = true
				cf()
				for _, n := range st.Nodes {
					n.Close()
				}
			})
		}
		sc.Check = func(x *vrt.Exec) []explore.Finding {
			r := x.Data.(*res)
			if x.HorizonHit {
				return []explore.Finding{{Kind: "step-horizon", Site: name, Detail: "did not finish"}}
			}
			if r.inHandler && r.after != "" && r.after != r.before {
				return []explore.Finding{{Kind: "callback-buffer-reused-while-handler-runs", Site: stackKind, Detail: fmt.Sprintf("the ServeAsk handler was given %q; while it was still running the same buffer read %q (contents of a later message)", r.before, r.after)}}
			}
			return nil
		}
		sc.Outcome = func(x *vrt.Exec) string {
			r := x.Data.(*res)
			return fmt.Sprintf("handler=%v before=%q after=%q", r.inHandler, r.before, r.after)
		}
		out = append(out, sc)
	}
	return out
}

// ---- race report parsing ----

var frameRe = regexp.MustCompile(`^\s+(/[^\s]+\.go):(\d+)`)
var accessRe = regexp.MustCompile(`^(Read|Write|Previous read|Previous write|Atomic|Previous atomic)[^\n]* at 0x`)

type report struct {
	text   string
	tops   []string // the frame that performed each of the two accesses
	frames []string // repository frames, in order
}

// relevant: at least one of the two conflicting accesses is performed by repository code
// (a harness callback racing with the library on a library buffer has the library access
// as the other side; two harness accesses are harness bookkeeping).
func (r report) relevant() bool {
	rel := false
	for _, t := range r.tops {
		// hook files injected by the overlay (zz_verif_*) are harness code living in /repo
		// paths: an access made through a hook (e.g. the harness flipping a package
		// variable between executions) is harness bookkeeping
		if strings.Contains(t, "/zz_verif_") {
			return false
		}
		if strings.HasPrefix(t, "/repo/") {
			rel = true
		}
	}
	return rel
}

func parseReports(prefix string) []report {
	files, _ := filepath.Glob(prefix + "*")
	var out []report
	for _, f := range files {
		data, err := os.ReadFile(f)
		if err != nil {
			continue
		}
		for _, block := range strings.Split(string(data), "==================") {
			if !strings.Contains(block, "DATA RACE") {
				continue
			}
			r := report{text: strings.TrimSpace(block)}
			wantTop := false
			for _, ln := range strings.Split(block, "\n") {
				if accessRe.MatchString(strings.TrimSpace(ln)) {
					wantTop = true
					continue
				}
				if m := frameRe.FindStringSubmatch(ln); m != nil {
					// the access is attributed to the first frame outside the Go runtime /
					// standard library (map and slice helpers report on behalf of their caller)
					if wantTop && (strings.HasPrefix(m[1], "/usr/lib/go") || strings.Contains(m[1], "/src/runtime/") || strings.Contains(m[1], "/go/src/")) {
						continue
					}
					if wantTop {
						r.tops = append(r.tops, m[1]+":"+m[2])
						wantTop = false
					}
					if strings.HasPrefix(m[1], "/repo/") {
						r.frames = append(r.frames, strings.TrimPrefix(m[1], "/repo/")+":"+m[2])
					}
				}
			}
			out = append(out, r)
		}
	}
	return out
}

func main() {
	run := evid.Start("C14", "model_checking")
	if !vrt.RaceEnabled {
		fmt.Fprintln(os.Stderr, "INTERNAL: C14 must be built with -race")
		os.Exit(2)
	}
	pb := evid.Pick(run, 1, 2)
	var scs []*explore.Scenario
	seenKind := map[string]bool{}
	for _, c := range c01.Configs(false) {
		// quick: the first configuration of every stack kind (and every mbapp one)
		if !run.Thorough() && seenKind[c.Stack.Kind] && c.Stack.Kind != "mbapp" {
			continue
		}
		seenKind[c.Stack.Kind] = true
		c.Workers = 2
		c.Receivers = 2
		sc := c01.Scenario(c, pb)
		sc.MaxExecs = evid.Pick(run, 1500, 60000)
		scs = append(scs, sc)
	}
	for _, sc := range append(extraScenarios(pb), c01.CloseDuringHandlerScenario(pb)) {
		sc.MaxExecs = evid.Pick(run, 4000, 100000)
		scs = append(scs, sc)
	}
	explore.Main(run, scs, evid.Pick(run, 170*time.Second, 20*time.Minute))
	// free-running -race pass over sshswarm / quicswarm (outside the controlled scheduler);
	// its reports land in the same log files
	if netrows.Run(run) {
		run.Assume("sshswarm and quicswarm: a separate free-running pass of concurrent API calls built with -race (the detector decides by happens-before, the schedules are the runtime's own)")
	}
	// every race report of every worker process
	reports := parseReports(os.Getenv("VERIF_RACE_LOG"))
	relevant, harnessOnly := 0, 0
	seen := map[string]bool{}
	for _, r := range reports {
		if !r.relevant() {
			harnessOnly++
			continue
		}
		relevant++
		fs := append([]string{}, r.frames...)
		key := strings.Join(uniq(fs), " ")
		if seen[key] {
			continue
		}
		seen[key] = true
		site := ""
		var tops []string
		for _, t := range r.tops {
			tops = append(tops, strings.TrimPrefix(t, "/repo/"))
			if strings.HasPrefix(t, "/repo/") && site == "" {
				site = strings.TrimPrefix(t, "/repo/")
				if i := strings.LastIndex(site, ":"); i > 0 {
					site = site[:i]
				}
			}
		}
		text := r.text
		if len(text) > 3000 {
			text = text[:3000]
		}
		run.Violate(evid.Violation{Kind: "data-race", Site: site, Detail: "unsynchronised conflicting accesses at " + strings.Join(tops, " and ") + " (line numbers refer to the instrumented copy)", Witness: map[string]any{"report": text}})
	}
	run.Set("race_reports_total", len(reports))
	run.Set("race_reports_touching_repository_code", relevant)
	run.Set("race_reports_harness_only_ignored", harnessOnly)
	run.Set("preemption_bound", pb)
	run.Assume("the detector sees the happens-before edges of Go's memory model for mutexes, RWMutexes, Once, WaitGroup, channels (per element), close, goroutine start and timers as re-created by the shims; reports whose stacks contain no repository frame (harness bookkeeping) are ignored")
	run.Finish()
}

func uniq(xs []string) []string {
	sort.Strings(xs)
	var out []string
	for i, x := range xs {
		if i == 0 || x != xs[i-1] {
			out = append(out, x)
		}
	}
	return out
}
