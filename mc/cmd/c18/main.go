// C18: the Kademlia cache is a faithful bounded map that sheds the farthest first.
// Explicit-state BFS over put/update/delete/expire/tick sequences on the real
// kademlia.Cache[int], compared with a reference map after every operation.
package main

import (
	"bytes"
	"fmt"
	"sort"
	"strings"
	"time"

	"go.brendoncarroll.net/p2p/p/kademlia"

	"verifmc/evid"
	"verifmc/seqmc"
)

var t0 = time.Unix(1_700_000_000, 0).UTC()

func at(t int) time.Time { return t0.Add(time.Duration(t) * time.Second) }

type config struct {
	name     string
	locus    []byte
	max, min int
	keys     [][]byte
	ttls     []int // 0 = no expiry, n = now+n
	ticks    int   // max clock value
	update   bool
	depthQ   int
	depthT   int
}

type opKind int

const (
	opPut opKind = iota
	opUpdate
	opDelete
	opExpire
	opTick
)

type op struct {
	kind opKind
	key  int
	ttl  int
	d    int
}

func (o op) String(c *config) string {
	switch o.kind {
	case opPut:
		return fmt.Sprintf("Put(%x,ttl=%d)", c.keys[o.key], o.ttl)
	case opUpdate:
		return fmt.Sprintf("Update(%x)", c.keys[o.key])
	case opDelete:
		return fmt.Sprintf("Delete(%x)", c.keys[o.key])
	case opExpire:
		return fmt.Sprintf("Expire(now+%d)", o.d)
	default:
		return "Tick"
	}
}

func alphabet(c *config) []op {
	var ops []op
	for k := range c.keys {
		for _, ttl := range c.ttls {
			ops = append(ops, op{kind: opPut, key: k, ttl: ttl})
		}
	}
	for k := range c.keys {
		ops = append(ops, op{kind: opDelete, key: k})
	}
	if c.update {
		for k := range c.keys {
			ops = append(ops, op{kind: opUpdate, key: k})
		}
	}
	if len(c.ttls) > 1 || c.ticks > 0 {
		ops = append(ops, op{kind: opExpire, d: 0}, op{kind: opExpire, d: 2})
	}
	if c.ticks > 0 {
		ops = append(ops, op{kind: opTick})
	}
	return ops
}

type refEntry struct {
	val     int
	created time.Time
	expires time.Time
}

type world struct {
	c     *config
	cache *kademlia.Cache[int]
	ref   map[string]refEntry
	clock int
	nval  int
}

func bucketIndex(locus, key []byte) int {
	d := make([]byte, len(locus))
	kademlia.XORBytes(d, locus, key)
	return kademlia.LeadingZeros(d)
}

type violation struct {
	kind, site, detail string
}

// apply runs one op on the real cache and the reference, returning a violation if the
// observable result disagrees.
func (w *world) apply(o op) (v *violation) {
	c := w.c
	defer func() {
		if r := recover(); r != nil {
			v = &violation{"panic", strings.SplitN(o.String(c), "(", 2)[0], fmt.Sprintf("panic: %v", r)}
		}
	}()
	now := at(w.clock)
	switch o.kind {
	case opPut, opUpdate:
		key := c.keys[o.key]
		w.nval++
		val := w.nval
		var evicted *kademlia.Entry[int]
		var added bool
		prev, existed := w.ref[string(key)]
		var ne refEntry
		if o.kind == opPut {
			var exp time.Time
			if o.ttl > 0 {
				exp = at(w.clock + o.ttl)
			}
			ne = refEntry{val: val, created: now, expires: exp}
			evicted, added = w.cache.Put(key, val, now, exp)
		} else {
			ne = refEntry{val: val, created: now}
			if existed {
				ne.created = prev.created
				ne.expires = prev.expires
			}
			var sawExists bool
			var sawVal int
			evicted, added = w.cache.Update(key, func(e kademlia.Entry[int], exists bool) kademlia.Entry[int] {
				sawExists, sawVal = exists, e.Value
				e2 := e
				if !exists {
					e2.Key = key
					e2.CreatedAt = now
				}
				e2.Value = val
				return e2
			})
			if c.max > 0 && (sawExists != existed || (existed && sawVal != prev.val)) {
				return &violation{"update-sees-wrong-entry", "Update", fmt.Sprintf("callback saw exists=%v val=%d, reference exists=%v val=%d", sawExists, sawVal, existed, prev.val)}
			}
		}
		site := "Put"
		if o.kind == opUpdate {
			site = "Update"
		}
		if c.max == 0 {
			if evicted != nil || added {
				return &violation{"zero-capacity-accepts", site, fmt.Sprintf("max=0 but evicted=%v added=%v", evicted, added)}
			}
			return nil
		}
		w.ref[string(key)] = ne
		if evicted != nil {
			re, ok := w.ref[string(evicted.Key)]
			if !ok {
				return &violation{"victim-not-held", site, fmt.Sprintf("reported victim %x is not an entry of the cache", evicted.Key)}
			}
			if re.val != evicted.Value || !re.created.Equal(evicted.CreatedAt) || !re.expires.Equal(evicted.ExpiresAt) {
				return &violation{"victim-content", site, fmt.Sprintf("victim %x reported as %v, reference %v", evicted.Key, *evicted, re)}
			}
			if len(w.ref) <= c.max {
				return &violation{"needless-eviction", site, fmt.Sprintf("evicted %x although only %d <= max=%d entries", evicted.Key, len(w.ref), c.max)}
			}
			// legitimacy of the victim: lowest-index bucket holding more than minPerBucket
			counts := map[int]int{}
			for k := range w.ref {
				counts[bucketIndex(c.locus, []byte(k))]++
			}
			vb := bucketIndex(c.locus, evicted.Key)
			anyUnprotected := false
			lowest := -1
			for b, n := range counts {
				if n > c.min {
					anyUnprotected = true
				}
				if lowest < 0 || b < lowest {
					lowest = b
				}
			}
			if !anyUnprotected {
				// every bucket is within its protected quota yet the cache is over capacity
				// (8*len(locus)+1 buckets exist): the statement's eviction preference is
				// vacuous, capacity wins. Accept the farthest non-empty bucket or refusal
				// of the new key.
				if vb != lowest && !bytes.Equal(evicted.Key, key) {
					return &violation{"victim-not-farthest", site, fmt.Sprintf("all buckets protected; victim %x from bucket %d, farthest non-empty bucket is %d", evicted.Key, vb, lowest)}
				}
			} else if counts[vb] <= c.min {
				return &violation{"victim-from-protected-bucket", site, fmt.Sprintf("victim %x from bucket %d holding %d <= minPerBucket=%d", evicted.Key, vb, counts[vb], c.min)}
			}
			for b, n := range counts {
				if b < vb && n > c.min {
					return &violation{"victim-not-farthest", site, fmt.Sprintf("victim %x from bucket %d but farther bucket %d holds %d > minPerBucket=%d", evicted.Key, vb, b, n, c.min)}
				}
			}
			delete(w.ref, string(evicted.Key))
			wantAdded := !existed && !bytes.Equal(evicted.Key, key)
			if added != wantAdded {
				return &violation{"added-flag", site, fmt.Sprintf("added=%v want %v (existed=%v victim=%x key=%x)", added, wantAdded, existed, evicted.Key, key)}
			}
		} else {
			if len(w.ref) > c.max {
				// the cache holds more than its capacity without reporting a victim
				return &violation{"over-capacity", site, fmt.Sprintf("%d entries > max=%d and no victim reported", len(w.ref), c.max)}
			}
			if added != !existed {
				return &violation{"added-flag", site, fmt.Sprintf("added=%v but key existed=%v", added, existed)}
			}
		}
	case opDelete:
		key := c.keys[o.key]
		prev, existed := w.ref[string(key)]
		e := w.cache.Delete(key)
		if existed {
			if e == nil || e.Value != prev.val || !bytes.Equal(e.Key, key) {
				return &violation{"delete-result", "Delete", fmt.Sprintf("deleted %x: got %v want value %d", key, e, prev.val)}
			}
		} else if e != nil && (len(e.Key) != 0 || e.Value != 0) {
			return &violation{"delete-result", "Delete", fmt.Sprintf("delete of absent %x returned %v", key, *e)}
		}
		delete(w.ref, string(key))
	case opExpire:
		en := at(w.clock + o.d)
		out := w.cache.Expire(nil, en)
		want := map[string]refEntry{}
		for k, e := range w.ref {
			if !e.expires.IsZero() && e.expires.Before(en) {
				want[k] = e
			}
		}
		got := map[string]bool{}
		for _, e := range out {
			re, ok := want[string(e.Key)]
			if !ok {
				return &violation{"expire-wrong-entry", "Expire", fmt.Sprintf("Expire(%d) returned %x which is not past its time", w.clock+o.d, e.Key)}
			}
			if got[string(e.Key)] {
				return &violation{"expire-duplicate", "Expire", fmt.Sprintf("entry %x returned twice", e.Key)}
			}
			got[string(e.Key)] = true
			if re.val != e.Value {
				return &violation{"expire-wrong-entry", "Expire", fmt.Sprintf("entry %x value %d want %d", e.Key, e.Value, re.val)}
			}
		}
		if len(got) != len(want) {
			return &violation{"expire-incomplete", "Expire", fmt.Sprintf("Expire(%d) returned %d entries, %d are past their time", w.clock+o.d, len(got), len(want))}
		}
		for k := range want {
			delete(w.ref, k)
		}
	case opTick:
		w.clock++
	}
	return w.compare(strings.SplitN(o.String(c), "(", 2)[0])
}

// compare checks Count, a full ForEach enumeration and Get/Contains of every universe key.
func (w *world) compare(site string) *violation {
	c := w.c
	now := at(w.clock)
	seen := map[string]bool{}
	var bad *violation
	w.cache.ForEach(nil, func(e kademlia.Entry[int]) bool {
		k := string(e.Key)
		if seen[k] {
			bad = &violation{"enumeration-duplicate", site, fmt.Sprintf("ForEach yields %x twice", e.Key)}
			return false
		}
		seen[k] = true
		re, ok := w.ref[k]
		if !ok {
			bad = &violation{"entry-resurrected", site, fmt.Sprintf("cache holds %x which the reference does not", e.Key)}
			return false
		}
		if re.val != e.Value || !re.created.Equal(e.CreatedAt) || !re.expires.Equal(e.ExpiresAt) {
			bad = &violation{"entry-content", site, fmt.Sprintf("entry %x is %v, reference %v", e.Key, e, re)}
			return false
		}
		return true
	})
	if bad != nil {
		return bad
	}
	if len(seen) != len(w.ref) {
		for k := range w.ref {
			if !seen[k] {
				return &violation{"entry-lost", site, fmt.Sprintf("entry %x disappeared without delete/expiry/reported eviction", k)}
			}
		}
	}
	if n := w.cache.Count(); n != len(seen) {
		return &violation{"count-mismatch", site, fmt.Sprintf("Count()=%d but the cache holds %d entries", n, len(seen))}
	}
	if w.cache.Count() > c.max {
		return &violation{"over-capacity", site, fmt.Sprintf("Count()=%d > max=%d", w.cache.Count(), c.max)}
	}
	for _, k := range c.keys {
		v, ok := w.cache.Get(k, now)
		re, want := w.ref[string(k)]
		if ok != want || (ok && v != re.val) {
			return &violation{"get-mismatch", site, fmt.Sprintf("Get(%x)=(%d,%v) reference (%d,%v)", k, v, ok, re.val, want)}
		}
		if w.cache.Contains(k, now) != want {
			return &violation{"get-mismatch", site, fmt.Sprintf("Contains(%x) != %v", k, want)}
		}
	}
	return nil
}

func (w *world) key() string {
	// value identities are dropped (the cache never inspects values; the oracle is
	// invariant under renaming them); times are kept exactly; the private state dump
	// keeps internally different states apart.
	keys := make([]string, 0, len(w.ref))
	for k := range w.ref {
		keys = append(keys, k)
	}
	sort.Strings(keys)
	sb := strings.Builder{}
	fmt.Fprintf(&sb, "t=%d|", w.clock)
	for _, k := range keys {
		e := w.ref[k]
		fmt.Fprintf(&sb, "%x:%d/%d,", k, e.created.Unix(), e.expires.Unix())
	}
	sb.WriteString("|")
	sb.WriteString(w.cache.VerifDump())
	return sb.String()
}

func newWorld(c *config) *world {
	return &world{c: c, cache: kademlia.NewCache[int](c.locus, c.max, c.min), ref: map[string]refEntry{}}
}

func hexKeys(xs ...string) [][]byte {
	var out [][]byte
	for _, x := range xs {
		b := make([]byte, len(x)/2)
		fmt.Sscanf(x, "%x", &b)
		out = append(out, b)
	}
	return out
}

func main() {
	run := evid.Start("C18", "model_checking")
	perBucket1 := []string{"80", "40", "20", "10", "08", "04", "02", "01", "00"}
	var twoPer []string
	for _, k := range []string{"80", "c0", "40", "60", "20", "30", "10", "18", "08", "0c", "04", "06", "02", "03", "01", "0100", "00", "0001"} {
		twoPer = append(twoPer, k)
	}
	var locus2 []string
	for i := 0; i < 16; i++ {
		b := []byte{0, 0}
		b[i/8] = 0x80 >> (i % 8)
		locus2 = append(locus2, fmt.Sprintf("%x", b))
	}
	locus2 = append(locus2, "0000", "8001")
	configs := []config{
		{name: "L00-max3-min0-ttl", locus: []byte{0}, max: 3, min: 0, keys: hexKeys("80", "c0", "40", "01", "00"), ttls: []int{0, 1, 2}, ticks: 2, update: true, depthQ: 6, depthT: 7},
		{name: "La5-max1-min0-ttl", locus: []byte{0xa5}, max: 1, min: 0, keys: hexKeys("a5", "25", "e5", "a4", "a501"), ttls: []int{0, 1}, ticks: 2, update: true, depthQ: 8, depthT: 30},
		{name: "L00-max0", locus: []byte{0}, max: 0, min: 0, keys: hexKeys("80", "00"), ttls: []int{0, 1}, ticks: 1, update: true, depthQ: 6, depthT: 6},
		{name: "L00-max2-min0-short-and-long-keys", locus: []byte{0}, max: 2, min: 0, keys: hexKeys("", "00", "0001", "80", "8000"), ttls: []int{0, 1}, ticks: 1, update: true, depthQ: 8, depthT: 30},
		{name: "L00-max8-min1-boundary", locus: []byte{0}, max: 8, min: 1, keys: hexKeys(append(perBucket1, "c0")...), ttls: []int{0}, depthQ: 12, depthT: 40},
		{name: "L00-max9-min1", locus: []byte{0}, max: 9, min: 1, keys: hexKeys(append(perBucket1, "c0", "60")...), ttls: []int{0}, depthQ: 13, depthT: 40},
		{name: "L00-max8-min1-expiry", locus: []byte{0}, max: 8, min: 1, keys: hexKeys("80", "c0", "a0", "40", "00"), ttls: []int{0, 1}, ticks: 2, update: true, depthQ: 6, depthT: 30},
		{name: "L0000-max16-min1-boundary", locus: []byte{0, 0}, max: 16, min: 1, keys: hexKeys(locus2...), ttls: []int{0}, depthQ: 5, depthT: 40},
		{name: "L00-max16-min2-boundary", locus: []byte{0}, max: 16, min: 2, keys: hexKeys(twoPer...), ttls: []int{0}, depthQ: 5, depthT: 40},
	}
	totalStates, totalTrans := 0, 0
	allExhaustive := true
	var capNotes []string
	for ci := range configs {
		c := &configs[ci]
		depth := evid.Pick(run, c.depthQ, c.depthT)
		if depth == 0 {
			continue
		}
		ops := alphabet(c)
		maxStates := evid.Pick(run, 600_000, 3_000_000)
		step := func(path []int) (string, bool, bool) {
			w := newWorld(c)
			for i, oi := range path {
				if ops[oi].kind == opTick && w.clock >= c.ticks {
					return "", false, true // clock horizon of this configuration
				}
				v := w.apply(ops[oi])
				if v != nil {
					if i == len(path)-1 {
						var names []string
						for _, pi := range path {
							names = append(names, ops[pi].String(c))
						}
						run.Violate(evid.Violation{Kind: v.kind, Site: v.site, Detail: v.detail,
							Witness: map[string]any{"config": c.name, "locus": evid.Hex(c.locus), "max": c.max, "minPerBucket": c.min, "ops": names}})
						run.Outcome("violation:" + v.kind)
						return "VIOL:" + v.kind + v.site + fmt.Sprint(path), true, true
					}
					// a prefix violated: unreachable because violating states are terminal
					return "", false, true
				}
			}
			if len(path) > 0 {
				run.Outcome(fmt.Sprintf("%s n=%d", strings.SplitN(ops[path[len(path)-1]].String(c), "(", 2)[0], len(w.ref)))
			}
			return w.key(), true, false
		}
		st := seqmc.BFS(seqmc.Config{NumOps: len(ops), MaxDepth: depth, MaxStates: maxStates}, step)
		totalStates += st.States
		totalTrans += st.Transitions
		if !st.Exhaustive {
			allExhaustive = false
			capNotes = append(capNotes, fmt.Sprintf("%s: %s (depth %d completed, %d states)", c.name, st.CapHit, st.DepthCompleted, st.States))
		}
		for _, p := range st.SamplePaths {
			var names []string
			for _, pi := range p {
				names = append(names, ops[pi].String(c))
			}
			run.Sample(map[string]any{"config": c.name, "ops": names})
		}
		fmt.Printf("  config %-36s ops=%d depth=%d states=%d transitions=%d exhaustive=%v\n", c.name, len(ops), st.DepthCompleted, st.States, st.Transitions, st.Exhaustive)
	}
	run.Set("states", totalStates)
	run.Set("transitions", totalTrans)
	run.Set("traces_validated_against_impl", totalTrans)
	run.Set("exhaustive", allExhaustive)
	run.Set("caps_hit", capNotes)
	run.Set("explanation", "BFS over operation sequences on the real kademlia.Cache[int]; every transition is an execution of the implementation (no separate model), compared with a reference map; state key = reference content with exact times + private bucket dump")
	run.Assume("keys/times/TTLs outside the per-configuration universes; cache values are opaque to the cache")
	run.Finish()
}
