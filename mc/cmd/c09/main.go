// C09: MTU is honest: anything up to MTU() is sendable intact, anything above is refused.
// Exhaustive grid over (stack, inner MTU, declared MTU, channel id, payload length) on the
// real stacks, executed on the instrumented code with a deterministic schedule.
package main

import (
	"bytes"
	"context"
	"fmt"
	"sort"
	"strings"
	"time"

	"go.brendoncarroll.net/p2p"
	"go.brendoncarroll.net/p2p/p/mbapp"
	"go.brendoncarroll.net/p2p/p/p2pmux"
	"go.brendoncarroll.net/p2p/s/fragswarm"
	"go.brendoncarroll.net/p2p/s/memswarm"
	"go.brendoncarroll.net/p2p/s/multiswarm"
	"go.brendoncarroll.net/p2p/s/p2pkeswarm"
	"go.brendoncarroll.net/p2p/s/udpswarm"

	"verifmc/evid"
	"verifmc/explore"
	"verifmc/hx"
	"verifmc/netrows"
	"verifmc/stacks"
	"verifmc/vrt"
)

type Addr = memswarm.Addr

// endpoint is a sender/receiver pair of one configured stack.
type endpoint struct {
	tell     func(ctx context.Context, v p2p.IOVec) error
	ask      func(ctx context.Context, resp []byte, v p2p.IOVec) (int, error)
	receive  func(ctx context.Context, fn func([]byte)) error
	serve    func(ctx context.Context, fn func([]byte) int) error
	mtu      func() int
	closers  []func() error
	parts    []int // part sizes of fragmenting layers (for boundary lengths)
	partMax  []int // maximum part counts of those layers
	noWarmUp bool
}

type build func() *endpoint

func pair[A p2p.Addr](a, b p2p.Swarm[A], dst A) *endpoint {
	e := &endpoint{}
	e.tell = func(ctx context.Context, v p2p.IOVec) error { return a.Tell(ctx, dst, v) }
	e.receive = func(ctx context.Context, fn func([]byte)) error {
		return b.Receive(ctx, func(m p2p.Message[A]) { fn(m.Payload) })
	}
	e.mtu = a.MTU
	if aa, ok := a.(p2p.AskSwarm[A]); ok {
		bb := b.(p2p.AskSwarm[A])
		e.ask = func(ctx context.Context, resp []byte, v p2p.IOVec) (int, error) { return aa.Ask(ctx, resp, dst, v) }
		e.serve = func(ctx context.Context, fn func([]byte) int) error {
			return bb.ServeAsk(ctx, func(_ context.Context, resp []byte, m p2p.Message[A]) int { return fn(m.Payload) })
		}
	}
	e.closers = append(e.closers, a.Close, b.Close)
	return e
}

type config struct {
	name  string
	build build
}

// innerMTUErrors counts MTU rejections issued by the innermost transport (they may be
// swallowed by the layers above, e.g. by p2pkeswarm's sender callback).
var innerMTUErrors int

type spySwarm struct{ p2p.AskSwarm[Addr] }

func (s spySwarm) Tell(ctx context.Context, dst Addr, v p2p.IOVec) error {
	err := s.AskSwarm.Tell(ctx, dst, v)
	if p2p.IsErrMTUExceeded(err) {
		innerMTUErrors++
	}
	return err
}

func (s spySwarm) Ask(ctx context.Context, resp []byte, dst Addr, v p2p.IOVec) (int, error) {
	n, err := s.AskSwarm.Ask(ctx, resp, dst, v)
	if p2p.IsErrMTUExceeded(err) {
		innerMTUErrors++
	}
	return n, err
}

type spySecure struct {
	p2p.SecureAskSwarm[Addr, string]
}

func (s spySecure) Tell(ctx context.Context, dst Addr, v p2p.IOVec) error {
	err := s.SecureAskSwarm.Tell(ctx, dst, v)
	if p2p.IsErrMTUExceeded(err) {
		innerMTUErrors++
	}
	return err
}

func memPair(mtu int) (*memswarm.Realm, [2]p2p.Swarm[Addr], [2]Addr) {
	r := memswarm.NewRealm(memswarm.WithMTU(mtu), memswarm.WithQueueLen(1024))
	a, b := r.NewSwarm(), r.NewSwarm()
	return r, [2]p2p.Swarm[Addr]{spySwarm{a}, spySwarm{b}}, [2]Addr{a.LocalAddr(), b.LocalAddr()}
}

func configs(thorough bool) []config {
	var out []config
	add := func(name string, b build) { out = append(out, config{name, b}) }
	for _, m := range []int{25, 64, 65536} {
		m := m
		add(fmt.Sprintf("mem(mtu=%d)", m), func() *endpoint {
			_, sw, ad := memPair(m)
			return pair[Addr](sw[0], sw[1], ad[1])
		})
	}
	for _, inner := range []int{25, 32, 100} {
		part := inner - fragswarm.Overhead
		decl := []int{inner, 255 * part, 255*part + 1, 256*part + 1, 1 << 16}
		for _, d := range decl {
			inner, d, part := inner, d, part
			add(fmt.Sprintf("frag(mem(mtu=%d),mtu=%d)", inner, d), func() *endpoint {
				_, sw, ad := memPair(inner)
				e := pair[Addr](fragswarm.New[Addr](sw[0], d), fragswarm.New[Addr](sw[1], d), ad[1])
				e.parts, e.partMax = []int{part}, []int{255}
				return e
			})
		}
	}
	for _, id := range []uint32{127, 128, 1 << 14, 1 << 21, 1 << 28, 1<<32 - 1} {
		id := id
		add(fmt.Sprintf("frag(mem(mtu=40),mtu=6375,next-id=%d)", id), func() *endpoint {
			_, sw, ad := memPair(40)
			fa := fragswarm.New[Addr](sw[0], 6375)
			e := pair[Addr](fa, fragswarm.New[Addr](sw[1], 6375), ad[1])
			fragswarm.VerifSetNextMsgID[Addr](fa, ad[1], id)
			e.parts, e.partMax = []int{25}, []int{255}
			e.noWarmUp = true
			return e
		})
	}
	for _, inner := range []int{32, 64, 100} {
		part := inner - mbapp.HeaderSize
		decl := []int{inner, 200}
		if thorough && inner == 32 {
			decl = append(decl, 65535*part, 65535*part+1)
		}
		for _, d := range decl {
			for _, noFast := range []bool{false, true} {
				inner, d, part, noFast := inner, d, part, noFast
				add(fmt.Sprintf("mbapp(mem(mtu=%d),mtu=%d,nofast=%v)", inner, d, noFast), func() *endpoint {
					mbapp.VerifSetDisableFastPath(noFast)
					r := memswarm.NewSecureRealm[string](memswarm.WithMTU(inner), memswarm.WithQueueLen(1<<17))
					a, b := r.NewSwarm("ka"), r.NewSwarm("kb")
					e := pair[Addr](mbapp.New[Addr, string](spySecure{a}, d, mbapp.WithNumWorkers(1)), mbapp.New[Addr, string](spySecure{b}, d, mbapp.WithNumWorkers(1)), b.LocalAddr())
					e.parts, e.partMax = []int{part}, []int{65535}
					return e
				})
			}
		}
	}
	// multiplexers: every kind x channel ids
	strChans := []string{"", "a", strings.Repeat("x", 127), strings.Repeat("y", 128)}
	intChans := []uint64{0, 127, 128, 1 << 14, 1 << 63, 1<<64 - 1}
	for _, inner := range []int{200, 576} {
		inner := inner
		for _, c := range strChans {
			c := c
			add(fmt.Sprintf("mux-string(mem(mtu=%d),chan=len%d)", inner, len(c)), func() *endpoint {
				_, sw, ad := memPair(inner)
				return pair[Addr](p2pmux.NewStringAskMux[Addr](sw[0].(p2p.AskSwarm[Addr])).Open(c), p2pmux.NewStringAskMux[Addr](sw[1].(p2p.AskSwarm[Addr])).Open(c), ad[1])
			})
		}
		for _, c := range intChans {
			c := c
			add(fmt.Sprintf("mux-varint(mem(mtu=%d),chan=%d)", inner, c), func() *endpoint {
				_, sw, ad := memPair(inner)
				return pair[Addr](p2pmux.NewVarintAskMux[Addr](sw[0]).Open(c), p2pmux.NewVarintAskMux[Addr](sw[1]).Open(c), ad[1])
			})
			add(fmt.Sprintf("mux-uint64(mem(mtu=%d),chan=%d)", inner, c), func() *endpoint {
				_, sw, ad := memPair(inner)
				return pair[Addr](p2pmux.NewUint64AskMux[Addr](sw[0]).Open(c), p2pmux.NewUint64AskMux[Addr](sw[1]).Open(c), ad[1])
			})
			if c < 1<<32 {
				add(fmt.Sprintf("mux-uint32(mem(mtu=%d),chan=%d)", inner, c), func() *endpoint {
					_, sw, ad := memPair(inner)
					return pair[Addr](p2pmux.NewUint32AskMux[Addr](sw[0]).Open(uint32(c)), p2pmux.NewUint32AskMux[Addr](sw[1]).Open(uint32(c)), ad[1])
				})
			}
			if c < 1<<16 {
				add(fmt.Sprintf("mux-uint16(mem(mtu=%d),chan=%d)", inner, c), func() *endpoint {
					_, sw, ad := memPair(inner)
					return pair[Addr](p2pmux.NewUint16AskMux[Addr](sw[0]).Open(uint16(c)), p2pmux.NewUint16AskMux[Addr](sw[1]).Open(uint16(c)), ad[1])
				})
			}
		}
	}
	for _, inner := range []int{576, 1280, 65536} {
		inner := inner
		add(fmt.Sprintf("p2pke(mem(mtu=%d))", inner), func() *endpoint {
			_, sw, _ := memPair(inner)
			a := p2pkeswarm.New[Addr](sw[0], stacks.TestKey(0))
			b := p2pkeswarm.New[Addr](sw[1], stacks.TestKey(1))
			return pair[p2pkeswarm.Addr[Addr]](a, b, b.LocalAddrs()[0])
		})
	}
	// multi-transport with different MTUs per transport
	for _, mt := range [][2]int{{64, 64}, {64, 100}} {
		mt := mt
		for _, scheme := range []string{"a", "b"} {
			scheme := scheme
			add(fmt.Sprintf("multi{a:mem(%d),b:mem(%d)} via %s", mt[0], mt[1], scheme), func() *endpoint {
				_, swa, ada := memPair(mt[0])
				_, swb, adb := memPair(mt[1])
				x := multiswarm.New(map[string]multiswarm.DynSwarm{"a": multiswarm.WrapSwarm[Addr](swa[0]), "b": multiswarm.WrapSwarm[Addr](swb[0])})
				y := multiswarm.New(map[string]multiswarm.DynSwarm{"a": multiswarm.WrapSwarm[Addr](swa[1]), "b": multiswarm.WrapSwarm[Addr](swb[1])})
				dst := multiswarm.Addr{Scheme: "a", Addr: ada[1]}
				if scheme == "b" {
					dst = multiswarm.Addr{Scheme: "b", Addr: adb[1]}
				}
				return pair[multiswarm.Addr](x, y, dst)
			})
		}
	}
	// the real udpswarm over the virtual network (package net shimmed by vnet)
	udpPair := func() (a, b *udpswarm.Swarm) {
		a, err := udpswarm.New("127.0.0.1:0")
		if err != nil {
			panic(err)
		}
		b, err = udpswarm.New("127.0.0.1:0")
		if err != nil {
			panic(err)
		}
		return a, b
	}
	add("udp", func() *endpoint {
		a, b := udpPair()
		return pair[udpswarm.Addr](a, b, b.LocalAddrs()[0])
	})
	add("p2pke(udp)", func() *endpoint {
		ua, ub := udpPair()
		a := p2pkeswarm.New[udpswarm.Addr](ua, stacks.TestKey(0))
		b := p2pkeswarm.New[udpswarm.Addr](ub, stacks.TestKey(1))
		return pair[p2pkeswarm.Addr[udpswarm.Addr]](a, b, b.LocalAddrs()[0])
	})
	add("frag(udp,mtu=4000)", func() *endpoint {
		ua, ub := udpPair()
		e := pair[udpswarm.Addr](fragswarm.New[udpswarm.Addr](ua, 4000), fragswarm.New[udpswarm.Addr](ub, 4000), ub.LocalAddrs()[0])
		e.parts, e.partMax = []int{ua.MTU() - fragswarm.Overhead}, []int{255}
		return e
	})
	// nestings
	add("frag(p2pke(mem(mtu=576)),mtu=2000)", func() *endpoint {
		_, sw, _ := memPair(576)
		a := p2pkeswarm.New[Addr](sw[0], stacks.TestKey(0))
		b := p2pkeswarm.New[Addr](sw[1], stacks.TestKey(1))
		e := pair[p2pkeswarm.Addr[Addr]](fragswarm.New[p2pkeswarm.Addr[Addr]](a, 2000), fragswarm.New[p2pkeswarm.Addr[Addr]](b, 2000), b.LocalAddrs()[0])
		e.parts, e.partMax = []int{576 - p2pkeswarm.Overhead - fragswarm.Overhead}, []int{255}
		return e
	})
	add("mux-string(frag(mem(mtu=40),mtu=300),chan=ab)", func() *endpoint {
		_, sw, ad := memPair(40)
		fa, fb := fragswarm.New[Addr](sw[0], 300), fragswarm.New[Addr](sw[1], 300)
		e := pair[Addr](p2pmux.NewStringMux[Addr](fa).Open("ab"), p2pmux.NewStringMux[Addr](fb).Open("ab"), ad[1])
		e.ask, e.serve = nil, nil // a plain Mux over a transport without asks
		e.closers = append(e.closers, fa.Close, fb.Close)
		e.parts, e.partMax = []int{25}, []int{255}
		return e
	})
	add("mbapp(mux-string(secure-mem(mtu=100),chan=mb),mtu=400)", func() *endpoint {
		r := memswarm.NewSecureRealm[string](memswarm.WithMTU(100), memswarm.WithQueueLen(1024))
		a, b := r.NewSwarm("ka"), r.NewSwarm("kb")
		ma := p2pmux.NewStringSecureMux[Addr, string](a).Open("mb")
		mb := p2pmux.NewStringSecureMux[Addr, string](b).Open("mb")
		e := pair[Addr](mbapp.New[Addr, string](ma, 400, mbapp.WithNumWorkers(1)), mbapp.New[Addr, string](mb, 400, mbapp.WithNumWorkers(1)), b.LocalAddr())
		e.closers = append(e.closers, a.Close, b.Close)
		return e
	})
	return out
}

func lengths(e *endpoint, mtu int) []int {
	set := map[int]bool{0: true, 1: true, mtu - 1: true, mtu: true, mtu + 1: true, mtu + 2: true, 2 * mtu: true}
	for i, part := range e.parts {
		if part <= 0 {
			continue
		}
		for _, n := range []int{1, 2, e.partMax[i], e.partMax[i] + 1, e.partMax[i] + 2} {
			for _, d := range []int{-1, 0, 1} {
				set[n*part+d] = true
			}
		}
	}
	var out []int
	for l := range set {
		if l >= 0 && l <= 1<<21 {
			out = append(out, l)
		}
	}
	sort.Ints(out)
	return out
}

func gen(l int) []byte {
	p := make([]byte, l)
	for i := range p {
		p[i] = byte(i*7 + l)
	}
	return p
}

type obs struct {
	InnerRej int
	L        int
	Mode     string
	Err      string
	MTUErr   bool
	Got      [][]byte
	Complete bool
}

type ledger struct {
	mtu int
	obs []obs
}

func scenario(c config) *explore.Scenario {
	sc := &explore.Scenario{Name: c.name, PB: 0, NoCache: true, Single: true}
	sc.Setup = func(x *vrt.Exec) {
		x.Data = &ledger{}
		x.MaxSteps = 40_000_000
		x.SchedDeterministic = true
		x.NoBranch = true
		x.TimerHorizon = 2 * time.Second
	}
	sc.Body = func(x *vrt.Exec) {
		l := x.Data.(*ledger)
		e := c.build()
		bg := context.Background()
		rctx, stop := hx.WithCancel(bg)
		var got [][]byte
		vrt.Go("R", func() {
			for {
				if err := e.receive(rctx, func(p []byte) { got = append(got, append([]byte{}, p...)) }); err != nil {
					return
				}
			}
		})
		if e.serve != nil {
			vrt.Go("S", func() {
				for {
					if err := e.serve(rctx, func(p []byte) int { got = append(got, append([]byte{}, p...)); return 0 }); err != nil {
						return
					}
				}
			})
		}
		x.Settle()
		l.mtu = e.mtu()
		// warm-up so that handshakes are not charged to the first payload
		if !e.noWarmUp {
			e.tell(bg, p2p.IOVec{[]byte("w")})
			x.Settle()
		}
		for _, L := range lengths(e, l.mtu) {
			modes := []string{"tell"}
			if e.ask != nil && L <= 1<<17 {
				modes = append(modes, "ask")
			}
			for _, mode := range modes {
				got = nil
				innerMTUErrors = 0
				var err error
				payload := gen(L)
				if mode == "tell" {
					err = e.tell(bg, p2p.IOVec{payload})
				} else {
					actx, cf := hx.WithCancel(bg)
					_, err = e.ask(actx, make([]byte, 4), p2p.IOVec{payload})
					cf()
				}
				x.Settle()
				o := obs{L: L, Mode: mode, MTUErr: p2p.IsErrMTUExceeded(err), InnerRej: innerMTUErrors}
				if err != nil {
					o.Err = err.Error()
				}
				for _, g := range got {
					if bytes.Equal(g, payload) {
						o.Complete = true
					} else {
						o.Got = append(o.Got, g)
					}
				}
				l.obs = append(l.obs, o)
			}
		}
		stop()
		for _, cl := range e.closers {
			cl()
		}
	}
	sc.Check = func(x *vrt.Exec) []explore.Finding {
		l := x.Data.(*ledger)
		var fs []explore.Finding
		layer := c.name
		if i := strings.IndexAny(layer, "({"); i > 0 {
			layer = layer[:i]
		}
		add := func(kind, detail string) {
			fs = append(fs, explore.Finding{Kind: kind, Site: layer, Detail: c.name + ": " + detail})
		}
		if x.HorizonHit {
			add("step-horizon", "did not finish")
			return fs
		}
		for _, o := range l.obs {
			for _, g := range o.Got {
				if len(g) == 1 && g[0] == 'w' {
					continue
				}
				add("delivered-in-part-or-altered", fmt.Sprintf("MTU()=%d: %s of %d bytes delivered %d bytes that are not the payload", l.mtu, o.Mode, o.L, len(g)))
			}
			if o.L <= l.mtu {
				if o.MTUErr {
					add("rejected-below-mtu", fmt.Sprintf("MTU()=%d but a %s of %d bytes is refused for size: %s", l.mtu, o.Mode, o.L, o.Err))
				} else if o.InnerRej > 0 {
					add("rejected-below-mtu-by-inner-layer", fmt.Sprintf("MTU()=%d but for a %s of %d bytes the transport underneath refused %d packet(s) for size (swallowed above)", l.mtu, o.Mode, o.L, o.InnerRej))
				}
			} else {
				if !o.MTUErr {
					add("accepted-above-mtu", fmt.Sprintf("MTU()=%d but a %s of %d bytes is not refused with the MTU error (err=%q, delivered complete=%v)", l.mtu, o.Mode, o.L, o.Err, o.Complete))
				}
				if o.Complete || len(o.Got) > 0 {
					add("delivered-above-mtu", fmt.Sprintf("MTU()=%d: something of a %d byte %s was delivered", l.mtu, o.L, o.Mode))
				}
			}
		}
		return fs
	}
	sc.Outcome = func(x *vrt.Exec) string {
		l := x.Data.(*ledger)
		ok := 0
		for _, o := range l.obs {
			if o.Complete {
				ok++
			}
		}
		return fmt.Sprintf("mtu=%d points=%d delivered=%d", l.mtu, len(l.obs), ok)
	}
	return sc
}

func main() {
	run := evid.Start("C09", "model_checking")
	var scs []*explore.Scenario
	for _, c := range configs(run.Thorough()) {
		scs = append(scs, scenario(c))
	}
	explore.Main(run, scs, evid.Pick(run, 150*time.Second, 15*time.Minute))
	run.Set("grid_configurations", len(scs))
	run.Assume("stacks whose handshake packets do not fit the inner MTU are not configured (the statement is about payload size); UDP/QUIC/SSH MTU handling is outside the scheduler")
	// free-running rows for sshswarm / quicswarm (outside the controlled scheduler)
	if netrows.Run(run) {
		run.Assume("sshswarm and quicswarm rows run free on loopback (third-party goroutines and sockets): every listed call configuration is executed once under the runtime's own schedule; waits of 20-30 s only give up, the only timing verdict is 'has not returned long after its deadline'")
	}
	run.Finish()
}
