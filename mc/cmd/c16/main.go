// C16: every address a swarm produces survives marshal and parse.
// Exhaustive grid over IPs, ports, ids, fingerprints, scheme names and nestings, plus
// addresses harvested from live loopback swarms, plus short arbitrary texts.
package main

import (
	"context"
	"crypto/ed25519"
	"encoding/binary"
	"fmt"
	"io"
	"log"
	"net/netip"
	"reflect"
	"strings"
	"time"

	"golang.org/x/crypto/sha3"
	"golang.org/x/crypto/ssh"

	"go.brendoncarroll.net/p2p"
	"go.brendoncarroll.net/p2p/s/memswarm"
	"go.brendoncarroll.net/p2p/s/multiswarm"
	"go.brendoncarroll.net/p2p/s/p2pkeswarm"
	"go.brendoncarroll.net/p2p/s/quicswarm"
	"go.brendoncarroll.net/p2p/s/sshswarm"
	"go.brendoncarroll.net/p2p/s/udpswarm"

	"verifmc/evid"
	"verifmc/stacks"
)

var run *evid.Run

// codec is one address type at one nesting level.
type codec struct {
	name  string
	addrs []p2p.Addr
	parse func([]byte) (p2p.Addr, error)
}

func wrapParse[A p2p.Addr](f func([]byte) (A, error)) func([]byte) (p2p.Addr, error) {
	return func(b []byte) (p2p.Addr, error) {
		a, err := f(b)
		if err != nil {
			return nil, err
		}
		return a, nil
	}
}

func ips() []netip.Addr {
	var out []netip.Addr
	for _, s := range []string{"0.0.0.0", "127.0.0.1", "255.255.255.255", "10.1.2.3", "::", "::1", "::ffff:1.2.3.4", "fe80::1", "2001:db8::ff", "fe80::1%lo", "ff02::1%eth0"} {
		out = append(out, netip.MustParseAddr(s))
	}
	return out
}

func peerIDs() []p2p.PeerID {
	var ids []p2p.PeerID
	ids = append(ids, p2p.PeerID{})
	var ff p2p.PeerID
	for i := range ff {
		ff[i] = 0xff
	}
	ids = append(ids, ff)
	for i := 0; i < 6; i++ {
		var id p2p.PeerID
		sha3.ShakeSum256(id[:], []byte{byte(i)})
		ids = append(ids, id)
	}
	return ids
}

// sshFingerprints draws seeded ed25519 keys until every symbol of the base64 alphabet
// (including + and /) has appeared in some fingerprint.
func sshFingerprints() []string {
	seen := map[rune]bool{}
	var out []string
	for i := 0; i < 4000 && (len(seen) < 64 || len(out) < 64); i++ {
		seed := make([]byte, 32)
		binary.BigEndian.PutUint64(seed[8:], uint64(i)+1)
		pub, err := ssh.NewPublicKey(ed25519.NewKeyFromSeed(seed).Public())
		if err != nil {
			panic(err)
		}
		fp := ssh.FingerprintSHA256(pub)
		fresh := false
		for _, c := range strings.TrimPrefix(fp, "SHA256:") {
			if !seen[c] {
				seen[c] = true
				fresh = true
			}
		}
		if fresh || len(out) < 64 {
			out = append(out, fp)
		}
	}
	return out
}

func grid() []codec {
	var cs []codec
	ports := []uint16{0, 1, 80, 65535}
	var udp []p2p.Addr
	var udpTyped []udpswarm.Addr
	for _, ip := range ips() {
		for _, p := range ports {
			udp = append(udp, udpswarm.Addr{IP: ip, Port: p})
			udpTyped = append(udpTyped, udpswarm.Addr{IP: ip, Port: p})
		}
	}
	cs = append(cs, codec{"udp", udp, wrapParse(udpswarm.ParseAddr)})
	var sshA []p2p.Addr
	fps := sshFingerprints()
	for i, fp := range fps {
		ip := ips()[i%len(ips())]
		sshA = append(sshA, sshswarm.Addr{Fingerprint: fp, IP: ip, Port: ports[i%len(ports)]})
	}
	cs = append(cs, codec{"ssh", sshA, wrapParse(sshswarm.ParseAddr)})
	var mem []p2p.Addr
	for _, n := range []int{0, 1, 7, -1, 1 << 40} {
		mem = append(mem, memswarm.Addr{N: n})
	}
	cs = append(cs, codec{"mem", mem, wrapParse(memswarm.ParseAddr)})
	// identity@transport
	var quicUDP, keUDP, keMem []p2p.Addr
	for _, id := range peerIDs() {
		for i, u := range udpTyped {
			if i%3 != 0 {
				continue
			}
			quicUDP = append(quicUDP, quicswarm.Addr[udpswarm.Addr]{ID: id, Addr: u})
			keUDP = append(keUDP, p2pkeswarm.Addr[udpswarm.Addr]{ID: id, Addr: u})
		}
		for _, n := range []int{0, 5, -3} {
			keMem = append(keMem, p2pkeswarm.Addr[memswarm.Addr]{ID: id, Addr: memswarm.Addr{N: n}})
		}
	}
	parseQuicUDP := func(b []byte) (quicswarm.Addr[udpswarm.Addr], error) {
		return quicswarm.ParseAddr[udpswarm.Addr](udpswarm.ParseAddr, b)
	}
	parseKeUDP := func(b []byte) (p2pkeswarm.Addr[udpswarm.Addr], error) {
		return p2pkeswarm.ParseAddr[udpswarm.Addr](udpswarm.ParseAddr, b)
	}
	parseKeMem := func(b []byte) (p2pkeswarm.Addr[memswarm.Addr], error) {
		return p2pkeswarm.ParseAddr[memswarm.Addr](memswarm.ParseAddr, b)
	}
	cs = append(cs, codec{"quic[udp]", quicUDP, wrapParse(parseQuicUDP)})
	cs = append(cs, codec{"p2pke[udp]", keUDP, wrapParse(parseKeUDP)})
	cs = append(cs, codec{"p2pke[mem]", keMem, wrapParse(parseKeMem)})
	// p2pke over ssh: inner text itself contains '@' and ':'
	var keSSH []p2p.Addr
	parseKeSSH := func(b []byte) (p2pkeswarm.Addr[sshswarm.Addr], error) {
		return p2pkeswarm.ParseAddr[sshswarm.Addr](sshswarm.ParseAddr, b)
	}
	for i, a := range sshA {
		if i%8 == 0 {
			keSSH = append(keSSH, p2pkeswarm.Addr[sshswarm.Addr]{ID: peerIDs()[i%len(peerIDs())], Addr: a.(sshswarm.Addr)})
		}
	}
	cs = append(cs, codec{"p2pke[ssh]", keSSH, wrapParse(parseKeSSH)})
	// scheme://inner with several scheme names, and nested multiswarms
	for _, names := range [][3]string{{"udp", "quic", "ke"}, {"a", "a-b", "a.b"}, {"a:b", "a/b", "x"}} {
		inner := multiswarm.NewSchemaFromSwarms(map[string]multiswarm.DynSwarm{
			names[0]: parserOnly(wrapParse(udpswarm.ParseAddr)),
			names[1]: parserOnly(wrapParse(parseQuicUDP)),
			names[2]: parserOnly(wrapParse(parseKeMem)),
		})
		var ms []p2p.Addr
		for i, a := range udp {
			if i%5 == 0 {
				ms = append(ms, multiswarm.Addr{Scheme: names[0], Addr: a})
			}
		}
		for i, a := range quicUDP {
			if i%9 == 0 {
				ms = append(ms, multiswarm.Addr{Scheme: names[1], Addr: a})
			}
		}
		for i, a := range keMem {
			if i%4 == 0 {
				ms = append(ms, multiswarm.Addr{Scheme: names[2], Addr: a})
			}
		}
		cs = append(cs, codec{"multi{" + strings.Join(names[:], ",") + "}", ms, wrapParse(inner.ParseAddr)})
		outer := multiswarm.NewSchemaFromSwarms(map[string]multiswarm.DynSwarm{"outer": parserOnly(wrapParse(inner.ParseAddr))})
		var nested []p2p.Addr
		for i, a := range ms {
			if i%3 == 0 {
				nested = append(nested, multiswarm.Addr{Scheme: "outer", Addr: a})
			}
		}
		cs = append(cs, codec{"multi{outer:multi{" + strings.Join(names[:], ",") + "}}", nested, wrapParse(outer.ParseAddr)})
	}
	return cs
}

// parserOnly is a DynSwarm of which only ParseAddr is used (schema construction).
type parserSwarm struct {
	p func([]byte) (p2p.Addr, error)
}

func parserOnly(p func([]byte) (p2p.Addr, error)) multiswarm.DynSwarm { return parserSwarm{p} }

func (parserSwarm) Tell(context.Context, p2p.Addr, p2p.IOVec) error            { return nil }
func (parserSwarm) Receive(context.Context, func(p2p.Message[p2p.Addr])) error { return nil }
func (parserSwarm) LocalAddrs() []p2p.Addr                                     { return nil }
func (parserSwarm) MTU() int                                                   { return 0 }
func (parserSwarm) Close() error                                               { return nil }
func (s parserSwarm) ParseAddr(b []byte) (p2p.Addr, error)                     { return s.p(b) }

func guard(site string, w any, f func()) {
	defer func() {
		if r := recover(); r != nil {
			run.Violate(evid.Violation{Kind: "panic", Site: site, Detail: fmt.Sprintf("panic: %v", r), Witness: w})
		}
	}()
	f()
}

func roundTrip(c codec, a p2p.Addr, origin string) {
	guard(c.name, fmt.Sprint(a), func() {
		run.Add("evaluations", 1)
		text, err := a.MarshalText()
		if err != nil {
			run.Violate(evid.Violation{Kind: "marshal-error", Site: c.name, Detail: err.Error(), Witness: fmt.Sprintf("%#v", a)})
			return
		}
		back, err := c.parse(text)
		if err != nil {
			run.Violate(evid.Violation{Kind: "own-address-not-parseable", Site: c.name, Detail: fmt.Sprintf("%s address %q does not parse: %v", origin, text, err), Witness: string(text)})
			return
		}
		if !reflect.DeepEqual(a, back) {
			run.Violate(evid.Violation{Kind: "address-changed", Site: c.name, Detail: fmt.Sprintf("%s address %q parses to %#v, was %#v", origin, text, back, a), Witness: string(text)})
			return
		}
		if a.String() == "" {
			run.Violate(evid.Violation{Kind: "empty-string", Site: c.name, Detail: "String() is empty", Witness: string(text)})
		}
		run.Outcome(c.name + " round-trips")
	})
}

// batchRoundTrip marshals a whole list of addresses first (as a node advertising its
// addresses does) and only then uses the texts: what MarshalText returned belongs to the
// caller and must still read the same, and parse back, after later calls.
func batchRoundTrip(c codec) {
	guard(c.name, "batch", func() {
		const batch = 16
		for start := 0; start < len(c.addrs); start += batch {
			end := start + batch
			if end > len(c.addrs) {
				end = len(c.addrs)
			}
			var texts [][]byte
			var copies []string
			for _, a := range c.addrs[start:end] {
				t, err := a.MarshalText()
				if err != nil {
					return // reported by roundTrip
				}
				texts = append(texts, t)
				copies = append(copies, string(t))
				_ = a.String()
			}
			for i, a := range c.addrs[start:end] {
				run.Add("evaluations", 1)
				if string(texts[i]) != copies[i] {
					run.Violate(evid.Violation{Kind: "marshalled-text-changed-later", Site: c.name, Detail: fmt.Sprintf("MarshalText returned %q; after marshalling other addresses the same slice reads %q", copies[i], texts[i]), Witness: copies[i]})
					return
				}
				back, err := c.parse(texts[i])
				if err != nil || !reflect.DeepEqual(a, back) {
					run.Violate(evid.Violation{Kind: "address-changed", Site: c.name, Detail: fmt.Sprintf("batch: address %q parses to %#v (err=%v), was %#v", copies[i], back, err, a), Witness: copies[i]})
					return
				}
			}
		}
	})
}

func arbitraryTexts(c codec) {
	alpha := []string{"@", ":", "/", "[", "]", "%", ".", "-", "0", "9", "a", "\xff"}
	var texts []string
	texts = append(texts, "")
	var rec func(p string, n int)
	rec = func(p string, n int) {
		if n == 0 {
			return
		}
		for _, a := range alpha {
			texts = append(texts, p+a)
			rec(p+a, n-1)
		}
	}
	depth := 4
	if run.Thorough() {
		depth = 5
	}
	rec("", depth)
	// structured mutations of valid addresses
	for i, a := range c.addrs {
		if i > 12 {
			break
		}
		t, _ := a.MarshalText()
		s := string(t)
		texts = append(texts, s+":", s+"@", "@"+s, s+s, strings.Replace(s, ":", "::", 1), strings.Replace(s, "@", "@@", 1), strings.ToUpper(s), s[:len(s)/2], " "+s, s+" ", s+"\n")
	}
	for _, t := range texts {
		t := t
		guard(c.name, t, func() {
			run.Add("evaluations", 1)
			run.Add("transitions", 1)
			a, err := c.parse([]byte(t))
			if err != nil {
				return
			}
			m, err := a.MarshalText()
			if err != nil {
				run.Violate(evid.Violation{Kind: "parsed-address-does-not-marshal", Site: c.name, Detail: fmt.Sprintf("%q parses but the result does not marshal: %v", t, err), Witness: t})
				return
			}
			b, err := c.parse(m)
			if err != nil || !reflect.DeepEqual(a, b) {
				run.Violate(evid.Violation{Kind: "parsed-address-not-stable", Site: c.name, Detail: fmt.Sprintf("%q parses to %#v which marshals to %q which parses to %#v (err=%v)", t, a, m, b, err), Witness: t})
			}
		})
	}
}

// harvested addresses of live loopback swarms
func harvested() {
	priv := stacks.TestKey(1)
	try := func(name string, f func() (addrs []p2p.Addr, parse func([]byte) (p2p.Addr, error), closeFn func())) {
		guard("harvest:"+name, name, func() {
			addrs, parse, closeFn := f()
			if closeFn != nil {
				defer closeFn()
			}
			for _, a := range addrs {
				roundTrip(codec{name: "live " + name, parse: parse}, a, "harvested")
				run.Add("harvested", 1)
			}
		})
	}
	for _, laddr := range []string{"127.0.0.1:0", "[::1]:0"} {
		laddr := laddr
		try("udpswarm "+laddr, func() ([]p2p.Addr, func([]byte) (p2p.Addr, error), func()) {
			s, err := udpswarm.New(laddr)
			if err != nil {
				run.Outcome("cannot listen on " + laddr)
				return nil, nil, nil
			}
			var out []p2p.Addr
			for _, a := range s.LocalAddrs() {
				out = append(out, a)
			}
			return out, wrapParse(s.ParseAddr), func() { s.Close() }
		})
		try("quicswarm "+laddr, func() ([]p2p.Addr, func([]byte) (p2p.Addr, error), func()) {
			s, err := quicswarm.NewOnUDP(laddr, priv)
			if err != nil {
				run.Outcome("cannot listen on " + laddr)
				return nil, nil, nil
			}
			var out []p2p.Addr
			for _, a := range s.LocalAddrs() {
				out = append(out, a)
			}
			return out, wrapParse(s.ParseAddr), func() { s.Close() }
		})
		try("p2pkeswarm[udp] "+laddr, func() ([]p2p.Addr, func([]byte) (p2p.Addr, error), func()) {
			u, err := udpswarm.New(laddr)
			if err != nil {
				return nil, nil, nil
			}
			s := p2pkeswarm.New[udpswarm.Addr](u, priv)
			var out []p2p.Addr
			for _, a := range s.LocalAddrs() {
				out = append(out, a)
			}
			return out, wrapParse(s.ParseAddr), func() { s.Close() }
		})
		try("sshswarm "+laddr, func() ([]p2p.Addr, func([]byte) (p2p.Addr, error), func()) {
			seed := make([]byte, 32)
			seed[0] = 9
			signer, err := ssh.NewSignerFromSigner(ed25519.NewKeyFromSeed(seed))
			if err != nil {
				panic(err)
			}
			s, err := sshswarm.New(laddr, signer)
			if err != nil {
				run.Outcome("cannot listen on " + laddr)
				return nil, nil, nil
			}
			var out []p2p.Addr
			for _, a := range s.LocalAddrs() {
				out = append(out, a)
			}
			return out, wrapParse(s.ParseAddr), func() { s.Close() }
		})
	}
	_ = time.Second
}

func main() {
	run = evid.Start("C16", "model_checking")
	log.SetOutput(io.Discard)
	cs := grid()
	n := 0
	for _, c := range cs {
		for _, a := range c.addrs {
			roundTrip(c, a, "generated")
			n++
		}
		batchRoundTrip(c)
		arbitraryTexts(c)
		run.Sample(map[string]any{"codec": c.name, "addresses": len(c.addrs), "example": fmt.Sprint(c.addrs[len(c.addrs)/2])})
	}
	harvested()
	run.Set("states", n)
	run.Set("traces_validated_against_impl", run.Get("evaluations"))
	run.Set("exhaustive", true)
	run.Set("explanation", "exhaustive grid: states = generated addresses (every IP x port x id x fingerprint x scheme x nesting of the grid) each marshalled and re-parsed with the real codec; transitions = arbitrary short texts and structured mutations fed to every parser (parse must fail or be stable)")
	run.Assume("scheme names containing '://' are outside the domain (they are configuration keys chosen by the application); IPs/ports/ids beyond the grid")
	run.Finish()
}
