// C10: reassembly never invents or mixes messages.
// The harness is the inner transport of the real fragswarm / mbapp: genuine fragments of
// several messages from several sources are captured from real sender instances and then
// delivered to a real receiver instance in every order, with duplication and loss.
package main

import (
	"bytes"
	"context"
	"fmt"
	"strings"
	"time"

	"go.brendoncarroll.net/p2p"
	"go.brendoncarroll.net/p2p/p/mbapp"
	"go.brendoncarroll.net/p2p/s/fragswarm"
	"go.brendoncarroll.net/p2p/s/memswarm"

	"verifmc/evid"
	"verifmc/explore"
	"verifmc/hx"
	"verifmc/vrt"
	"verifmc/vrt/vchan"
)

type Addr = memswarm.Addr

type frag struct {
	Src     Addr
	Msg     int // ledger message it belongs to
	Payload []byte
}

// captureSwarm records what a real sender instance tells.
type captureSwarm struct {
	local Addr
	mtu   int
	out   *[]frag
	msg   *int
}

func (c *captureSwarm) Tell(ctx context.Context, dst Addr, v p2p.IOVec) error {
	if p2p.VecSize(v) > c.mtu {
		return p2p.ErrMTUExceeded
	}
	*c.out = append(*c.out, frag{Src: c.local, Msg: *c.msg, Payload: p2p.VecBytes(nil, v)})
	return nil
}
func (c *captureSwarm) Receive(ctx context.Context, fn func(p2p.Message[Addr])) error {
	vchan.RecvExt(ctx.Done())
	return ctx.Err()
}
func (c *captureSwarm) LocalAddrs() []Addr               { return []Addr{c.local} }
func (c *captureSwarm) MTU() int                         { return c.mtu }
func (c *captureSwarm) Close() error                     { return nil }
func (c *captureSwarm) ParseAddr(x []byte) (Addr, error) { return memswarm.ParseAddr(x) }
func (c *captureSwarm) PublicKey() string                { return "k" }
func (c *captureSwarm) LookupPublicKey(ctx context.Context, a Addr) (string, error) {
	return "k", nil
}

// scriptSwarm is the receiver's inner transport: the adversary thread feeds it.
type scriptSwarm struct {
	captureSwarm
	in     *vchan.Chan[frag]
	closed *vchan.Chan[struct{}]
}

func (s *scriptSwarm) Receive(ctx context.Context, fn func(p2p.Message[Addr])) error {
	r := vchan.NewRecv(s.in)
	switch vchan.Select(false, vchan.NewExt(ctx.Done()), vchan.NewRecv(s.closed), r) {
	case 0:
		return ctx.Err()
	case 1:
		return p2p.ErrClosed
	default:
		buf := append([]byte{}, r.V.Payload...)
		fn(p2p.Message[Addr]{Src: r.V.Src, Dst: s.local, Payload: buf})
		// the transport reuses its buffer after the callback
		for i := range buf {
			buf[i] = 0xCC
		}
		return nil
	}
}
func (s *scriptSwarm) Close() error {
	if x := vrt.Cur(); x != nil && !x.Aborting() {
		s.closed.Close()
	}
	return nil
}

func gen(m, l int) []byte {
	p := make([]byte, l)
	for i := range p {
		p[i] = byte(17*(m+1) + 5*i + 1)
	}
	if l > 0 {
		p[0] = 0xE0 | byte(m)
	}
	return p
}

type message struct {
	ID, Src, Len int
}

type delivered struct {
	Src     Addr
	Payload []byte
}

type ledger struct {
	cell    hx.Cell
	msgs    []message
	frags   []frag
	dropped map[int]bool // ledger messages that lost a fragment
	got     []delivered
	script  []string
}

func led(x *vrt.Exec) *ledger { return x.Data.(*ledger) }

type cfg struct {
	layer       string // frag | mbapp
	innerMTU    int
	msgs        []message // Src is 1 or 2
	workers     int
	reorderCost bool // choosing a fragment other than the oldest costs a deviation
	db          int
}

func (c cfg) name() string {
	var ms []string
	for _, m := range c.msgs {
		ms = append(ms, fmt.Sprintf("s%d:%d", m.Src, m.Len))
	}
	return fmt.Sprintf("%s-imtu%d-%s-w%d-db%d-rc%v", c.layer, c.innerMTU, strings.Join(ms, ","), c.workers, c.db, c.reorderCost)
}

func scenario(c cfg) *explore.Scenario {
	sc := &explore.Scenario{Name: c.name(), PB: 0, DB: c.db}
	if c.workers > 1 {
		sc.PB = 1
	}
	sc.Setup = func(x *vrt.Exec) {
		x.Data = &ledger{dropped: map[int]bool{}}
		x.MaxSteps = 20000
		x.NumWorkers = c.workers
	}
	sc.Body = func(x *vrt.Exec) {
		l := led(x)
		bg := context.Background()
		const outerMTU = 1 << 12
		// 1. genuine fragments from real sender instances (deterministic phase)
		x.NoBranch = true
		curMsg := 0
		senders := map[int]p2p.Swarm[Addr]{}
		closers := []func() error{}
		for _, src := range []int{1, 2} {
			cs := &captureSwarm{local: Addr{N: src}, mtu: c.innerMTU, out: &l.frags, msg: &curMsg}
			switch c.layer {
			case "frag":
				s := fragswarm.New[Addr](cs, outerMTU)
				senders[src] = s
				closers = append(closers, s.Close)
			case "mbapp":
				s := mbapp.New[Addr, string](cs, outerMTU, mbapp.WithNumWorkers(1))
				senders[src] = s
				closers = append(closers, s.Close)
			}
		}
		for i, m := range c.msgs {
			curMsg = i
			l.msgs = append(l.msgs, m)
			if err := senders[m.Src].Tell(bg, Addr{N: 0}, p2p.IOVec{gen(i, m.Len)}); err != nil {
				panic(fmt.Sprintf("sender-side Tell failed: %v", err))
			}
			x.Settle()
		}
		for _, cl := range closers {
			cl()
		}
		x.Settle()
		// 2. the receiver under test over the scripted transport
		script := &scriptSwarm{captureSwarm: captureSwarm{local: Addr{N: 0}, mtu: c.innerMTU, out: new([]frag), msg: new(int)}, in: vchan.Make[frag](0), closed: vchan.Make[struct{}](0)}
		var recv p2p.Swarm[Addr]
		switch c.layer {
		case "frag":
			recv = fragswarm.New[Addr](script, outerMTU)
		case "mbapp":
			recv = mbapp.New[Addr, string](script, outerMTU, mbapp.WithNumWorkers(c.workers))
		}
		rctx, stop := hx.WithCancel(bg)
		vrt.Go("R", func() {
			for {
				if err := recv.Receive(rctx, func(m p2p.Message[Addr]) {
					l.cell.Touch()
					l.got = append(l.got, delivered{Src: m.Src, Payload: append([]byte{}, m.Payload...)})
				}); err != nil {
					return
				}
			}
		})
		x.Settle()
		x.NoBranch = false
		// 3. the adversary: every order, with duplication and loss
		vrt.Go("adversary", func() {
			pool := append([]frag{}, l.frags...)
			for len(pool) > 0 {
				cost := make([]uint8, len(pool))
				if c.reorderCost {
					for i := 1; i < len(pool); i++ {
						cost[i] = 1
					}
				}
				i := x.Choose(len(pool), cost, "which fragment")
				action := x.Choose(3, []uint8{0, 1, 1}, "deliver/dup/drop")
				f := pool[i]
				switch action {
				case 0:
					pool = append(pool[:i:i], pool[i+1:]...)
					l.script = append(l.script, fmt.Sprintf("deliver(m%d)", f.Msg))
					script.in.Send(f)
				case 1:
					l.script = append(l.script, fmt.Sprintf("dup(m%d)", f.Msg))
					script.in.Send(f)
				case 2:
					pool = append(pool[:i:i], pool[i+1:]...)
					l.cell.Touch()
					l.dropped[f.Msg] = true
					l.script = append(l.script, fmt.Sprintf("drop(m%d)", f.Msg))
				}
			}
			hx.WaitQuiescent(&l.cell)
			x.NoBranch = true
			stop()
			recv.Close()
		})
	}
	sc.Check = func(x *vrt.Exec) []explore.Finding {
		l := led(x)
		site := map[string]string{"frag": "fragswarm", "mbapp": "mbapp"}[c.layer]
		var fs []explore.Finding
		add := func(kind, detail string) {
			fs = append(fs, explore.Finding{Kind: kind, Site: site, Detail: detail + " script=" + strings.Join(l.script, " ")})
		}
		if x.HorizonHit {
			add("step-horizon", "execution did not quiesce")
			return fs
		}
		for _, g := range l.got {
			ok := false
			for i, m := range l.msgs {
				if g.Src.N == m.Src && bytes.Equal(g.Payload, gen(i, m.Len)) {
					ok = true
					if l.dropped[i] && !dupSaves(l, i) {
						add("incomplete-message-delivered", fmt.Sprintf("message %d was delivered although one of its fragments was dropped", i))
					}
				}
			}
			if !ok {
				kind := "invented-payload"
				for i, m := range l.msgs {
					if bytes.Equal(g.Payload, gen(i, m.Len)) {
						kind = "wrong-source"
					}
				}
				add(kind, fmt.Sprintf("delivered %d bytes %x.. attributed to source %d which never sent them", len(g.Payload), head(g.Payload), g.Src.N))
			}
		}
		return fs
	}
	sc.Outcome = func(x *vrt.Exec) string {
		l := led(x)
		return fmt.Sprintf("delivered=%d dropped=%d", len(l.got), len(l.dropped))
	}
	return sc
}

// dupSaves: a dropped fragment may still have arrived through an earlier duplicate.
func dupSaves(l *ledger, msg int) bool {
	for _, s := range l.script {
		if s == fmt.Sprintf("dup(m%d)", msg) {
			return true
		}
	}
	return false
}

func head(b []byte) []byte {
	if len(b) > 8 {
		return b[:8]
	}
	return b
}

func main() {
	run := evid.Start("C10", "model_checking")
	var scs []*explore.Scenario
	// fragswarm: part = innerMTU - 15 ; mbapp: part = innerMTU - 24
	fragCfgs := []cfg{
		{layer: "frag", innerMTU: 40, msgs: []message{{0, 1, 50}, {1, 2, 75}}, workers: 1, db: 1},
		{layer: "frag", innerMTU: 40, msgs: []message{{0, 1, 50}, {1, 2, 49}}, workers: 1, db: 1},
		{layer: "mbapp", innerMTU: 64, msgs: []message{{0, 1, 80}, {1, 2, 120}}, workers: 1, db: 1},
		{layer: "mbapp", innerMTU: 64, msgs: []message{{0, 1, 80}, {1, 2, 79}}, workers: 1, db: 1},
		{layer: "frag", innerMTU: 40, msgs: []message{{0, 1, 50}, {1, 1, 49}, {2, 2, 26}}, workers: 1, db: 0},
		{layer: "mbapp", innerMTU: 64, msgs: []message{{0, 1, 80}, {1, 1, 79}, {2, 2, 41}}, workers: 1, db: 0},
	}
	fragCfgs = append(fragCfgs,
		cfg{layer: "frag", innerMTU: 40, msgs: []message{{0, 1, 50}, {1, 2, 49}}, workers: 2, db: 1},
		cfg{layer: "mbapp", innerMTU: 64, msgs: []message{{0, 1, 80}, {1, 2, 79}}, workers: 2, db: 1},
		cfg{layer: "frag", innerMTU: 40, msgs: []message{{0, 1, 50}, {1, 2, 49}}, workers: 1, db: 2},
		cfg{layer: "mbapp", innerMTU: 64, msgs: []message{{0, 1, 80}, {1, 2, 79}}, workers: 1, db: 2},
	)
	if run.Thorough() {
		fragCfgs = append(fragCfgs,
			cfg{layer: "frag", innerMTU: 40, msgs: []message{{0, 1, 50}, {1, 2, 75}}, workers: 2, db: 1},
			cfg{layer: "mbapp", innerMTU: 64, msgs: []message{{0, 1, 80}, {1, 2, 120}}, workers: 2, db: 1},
			cfg{layer: "frag", innerMTU: 40, msgs: []message{{0, 1, 50}, {1, 2, 75}}, workers: 1, db: 2},
			cfg{layer: "mbapp", innerMTU: 64, msgs: []message{{0, 1, 80}, {1, 2, 120}}, workers: 1, db: 2},
			cfg{layer: "frag", innerMTU: 115, msgs: []message{{0, 1, 200}, {1, 2, 300}}, workers: 1, db: 1},
			cfg{layer: "frag", innerMTU: 40, msgs: []message{{0, 1, 50}, {1, 2, 75}, {2, 1, 49}, {3, 2, 60}}, workers: 1, db: 3, reorderCost: true},
			cfg{layer: "mbapp", innerMTU: 64, msgs: []message{{0, 1, 80}, {1, 2, 120}, {2, 1, 79}, {3, 2, 100}}, workers: 1, db: 3, reorderCost: true},
		)
	}
	for _, c := range fragCfgs {
		sc := scenario(c)
		sc.MaxExecs = evid.Pick(run, 60000, 3000000)
		scs = append(scs, sc)
	}
	explore.Main(run, scs, evid.Pick(run, 100*time.Second, 15*time.Minute))
	run.Assume("fragments are genuine (produced by the real sender side); adversarially crafted fragments are the subject of C08")
	run.Finish()
}
