// c11net: free-running rows of C11 for the stacks that live outside the controlled
// scheduler (sshswarm, quicswarm over UDP and over the in-memory transport). Every case of
// a small grid of call configurations (response length against the asker's buffer,
// negative handler result, request sizes, concurrent askers, destination closed before /
// after a connection exists, context ending while the handler is busy) runs once against
// the real swarms on loopback. Waiting uses long timeouts and only gives up on them; the
// only timing verdict is "did not return long after the context's deadline".
package main

import (
	"bytes"
	"context"
	"flag"
	"fmt"
	"io"
	"log"
	"strings"
	"sync"
	"time"

	"go.brendoncarroll.net/p2p"

	"verifmc/netrows"
	"verifmc/netstacks"
	"verifmc/stacks"
)

const slack = 20 * time.Second // how long after its deadline a call may take before it counts as blocked

func pattern(n int, tag byte) []byte {
	p := make([]byte, n)
	for i := range p {
		p[i] = tag + byte(i*3)
	}
	return p
}

type askResult struct {
	n    int
	err  error
	resp []byte
	took time.Duration
}

// ask runs one Ask with a deadline and waits for it at most deadline+slack.
func ask(n *stacks.Node, dst int, payload []byte, bufLen int, d time.Duration) (askResult, bool) {
	ctx, cf := context.WithTimeout(context.Background(), d)
	defer cf()
	ch := make(chan askResult, 1)
	go func() {
		buf := make([]byte, bufLen)
		t0 := time.Now()
		k, err := n.Ask(ctx, buf, dst, p2p.IOVec{payload})
		r := askResult{n: k, err: err, took: time.Since(t0)}
		if err == nil && k >= 0 && k <= len(buf) {
			r.resp = buf[:k]
		}
		ch <- r
	}()
	select {
	case r := <-ch:
		return r, true
	case <-time.After(d + slack):
		return askResult{}, false
	}
}

type server struct {
	mu      sync.Mutex
	respLen int           // bytes the handler writes (pattern tagged by the first request byte)
	result  int           // value the handler returns; -2 = respLen
	hold    chan struct{} // if non-nil the handler waits for it
	seen    [][]byte
	seenSrc []string // identity part of the source address the handler saw
	cancel  context.CancelFunc
}

func (s *server) start(n *stacks.Node, loops int) {
	ctx, cf := context.WithCancel(context.Background())
	s.cancel = cf
	for i := 0; i < loops; i++ {
		go func() {
			for {
				err := n.ServeAsk(ctx, func(_ context.Context, resp []byte, m stacks.Msg) int {
					s.mu.Lock()
					s.seen = append(s.seen, append([]byte{}, m.Payload...))
					s.seenSrc = append(s.seenSrc, identity(m.SrcText))
					respLen, result, hold := s.respLen, s.result, s.hold
					s.mu.Unlock()
					if hold != nil {
						<-hold
					}
					tag := byte(0)
					if len(m.Payload) > 0 {
						tag = m.Payload[0]
					}
					if respLen > len(resp) {
						respLen = len(resp)
					}
					copy(resp, pattern(respLen, tag))
					if result == -2 {
						return respLen
					}
					return result
				})
				if err != nil {
					return
				}
			}
		}()
	}
}

// identity returns the identity part of an address text (fingerprint or peer id; the
// transport part of an asker's address is the ephemeral port of its connection).
func identity(text string) string {
	if i := strings.Index(text, "@"); i >= 0 {
		return text[:i]
	}
	return text
}

func (s *server) set(respLen, result int, hold chan struct{}) {
	s.mu.Lock()
	s.respLen, s.result, s.hold = respLen, result, hold
	s.seen, s.seenSrc = nil, nil
	s.mu.Unlock()
}

func rows(em *netrows.Emitter, kind string, thorough bool) (cases int) {
	fail := func(k, detail string, w any) { em.Violation(k, kind, kind+": "+detail, w) }
	build := func() *stacks.Stack {
		st, err := netstacks.Build(kind, 2)
		if err != nil {
			em.Note(kind + ": cannot build: " + err.Error())
			return nil
		}
		return st
	}
	closeAll := func(st *stacks.Stack) {
		for _, n := range st.Nodes {
			n.Close()
		}
	}
	const capLen = 16
	// ---- 1. response length against the asker's buffer, negative results, request sizes
	if st := build(); st != nil {
		srv := &server{}
		srv.start(st.Nodes[0], 2)
		for _, l := range []int{0, 1, capLen - 1, capLen, capLen + 1, 64} {
			for _, reqLen := range []int{1, 1000} {
				cases++
				srv.set(l, -2, nil)
				req := pattern(reqLen, byte(0x40+l))
				r, ok := ask(st.Nodes[1], 0, req, capLen, 10*time.Second)
				w := map[string]any{"stack": kind, "response_len": l, "asker_buffer": capLen, "request_len": reqLen}
				switch {
				case !ok:
					fail("ask-blocked-past-deadline", fmt.Sprintf("Ask (response %d bytes, buffer %d) did not return %v after its deadline", l, capLen, slack), w)
				case l <= capLen && r.err != nil:
					// an error is always allowed by the statement's second sentence only for the listed causes; a fitting response must succeed on a reliable loopback
					fail("ask-failed-on-fitting-response", fmt.Sprintf("response of %d bytes fits the %d byte buffer but Ask failed: %v", l, capLen, r.err), w)
				case l <= capLen && (r.n != l || !bytes.Equal(r.resp, pattern(l, req[0]))):
					fail("ask-wrong-response", fmt.Sprintf("handler produced %d bytes %x, Ask returned n=%d %x", l, pattern(l, req[0]), r.n, r.resp), w)
				case l > capLen && r.err == nil:
					fail("ask-truncated-success", fmt.Sprintf("handler produced %d bytes, the asker's buffer holds %d: Ask returned n=%d and no error", l, capLen, r.n), w)
				}
				srv.mu.Lock()
				if want := identity(st.Nodes[1].Local()[0]); len(srv.seen) != 1 || !bytes.Equal(srv.seen[0], req) || srv.seenSrc[0] != want {
					var got any = "nothing"
					if len(srv.seen) > 0 {
						got = fmt.Sprintf("%d invocation(s), first payload %d bytes from identity %q", len(srv.seen), len(srv.seen[0]), srv.seenSrc[0])
					}
					fail("handler-saw-wrong-request", fmt.Sprintf("one ask of %d bytes from identity %q: handler saw %v", reqLen, want, got), w)
				}
				srv.mu.Unlock()
			}
		}
		for _, res := range []int{-1, -7} {
			cases++
			srv.set(4, res, nil)
			r, ok := ask(st.Nodes[1], 0, []byte("neg"), capLen, 10*time.Second)
			w := map[string]any{"stack": kind, "handler_result": res}
			if !ok {
				fail("ask-blocked-past-deadline", fmt.Sprintf("Ask whose handler returned %d did not return", res), w)
			} else if r.err == nil {
				fail("ask-success-on-handler-failure", fmt.Sprintf("handler returned %d but Ask returned n=%d and no error", res, r.n), w)
			}
		}
		// ---- 2. concurrent askers: each gets the answer to its own request
		for _, k := range []int{2, 4} {
			cases++
			srv.set(8, -2, nil)
			var wg sync.WaitGroup
			var mu sync.Mutex
			var bad []string
			for i := 0; i < k; i++ {
				i := i
				wg.Add(1)
				go func() {
					defer wg.Done()
					req := []byte{byte(0x90 + i), 1, 2, 3}
					r, ok := ask(st.Nodes[1], 0, req, capLen, 10*time.Second)
					mu.Lock()
					defer mu.Unlock()
					switch {
					case !ok:
						bad = append(bad, fmt.Sprintf("asker %d blocked", i))
					case r.err != nil:
						bad = append(bad, fmt.Sprintf("asker %d failed: %v", i, r.err))
					case !bytes.Equal(r.resp, pattern(8, req[0])):
						bad = append(bad, fmt.Sprintf("asker %d got %x, its handler produced %x", i, r.resp, pattern(8, req[0])))
					}
				}()
			}
			wg.Wait()
			if len(bad) > 0 {
				fail("ask-wrong-response", fmt.Sprintf("%d concurrent askers: %v", k, bad), map[string]any{"stack": kind, "askers": k})
			}
		}
		// ---- 3. the context ends while the handler is still busy
		cases++
		hold := make(chan struct{})
		srv.set(4, -2, hold)
		r, ok := ask(st.Nodes[1], 0, []byte("slow"), capLen, 500*time.Millisecond)
		close(hold)
		w := map[string]any{"stack": kind, "deadline": "500ms", "handler": "still running"}
		if !ok {
			fail("ask-blocked-past-deadline", fmt.Sprintf("the context ended after 500ms while the handler was busy; Ask had not returned %v later", slack), w)
		} else if r.err == nil {
			fail("ask-success-after-context-ended", fmt.Sprintf("the context ended after 500ms while the handler was busy; Ask returned n=%d and no error", r.n), w)
		}
		srv.cancel()
		closeAll(st)
	}
	// ---- 4. nobody serves
	if st := build(); st != nil {
		cases++
		r, ok := ask(st.Nodes[1], 0, []byte("anyone?"), capLen, 500*time.Millisecond)
		w := map[string]any{"stack": kind, "deadline": "500ms", "servers": 0}
		if !ok {
			fail("ask-blocked-past-deadline", fmt.Sprintf("nobody serves asks at the destination; Ask had not returned %v after its 500ms deadline", slack), w)
		} else if r.err == nil {
			fail("ask-success-without-handler", fmt.Sprintf("nobody serves asks at the destination; Ask returned n=%d and no error", r.n), w)
		}
		closeAll(st)
	}
	// ---- 5. destination gone
	for _, warm := range []bool{false, true} {
		st := build()
		if st == nil {
			continue
		}
		cases++
		srv := &server{}
		srv.start(st.Nodes[0], 1)
		srv.set(4, -2, nil)
		if warm {
			// a connection exists before the destination closes
			if r, ok := ask(st.Nodes[1], 0, []byte("warm"), capLen, 10*time.Second); !ok || r.err != nil {
				em.Note(fmt.Sprintf("%s: warm-up ask failed (%v), case skipped", kind, r.err))
				srv.cancel()
				closeAll(st)
				continue
			}
		}
		srv.cancel()
		st.Nodes[0].Close()
		srv.mu.Lock()
		before := len(srv.seen)
		srv.mu.Unlock()
		r, ok := ask(st.Nodes[1], 0, []byte("gone"), capLen, 2*time.Second)
		w := map[string]any{"stack": kind, "destination": "closed", "connection_existed": warm}
		srv.mu.Lock()
		handled := len(srv.seen) > before
		srv.mu.Unlock()
		if !ok {
			fail("ask-blocked-past-deadline", fmt.Sprintf("destination closed (connection existed: %v); Ask had not returned %v after its 2s deadline", warm, slack), w)
		} else if r.err == nil && !handled {
			fail("ask-success-from-closed-destination", fmt.Sprintf("destination closed (connection existed: %v), no handler ran, yet Ask returned n=%d and no error", warm, r.n), w)
		}
		st.Nodes[1].Close()
	}
	_ = thorough
	return cases
}

func main() {
	flag.Parse() // -tier is registered by package evid (imported through netrows)
	tier := "quick"
	if f := flag.Lookup("tier"); f != nil && f.Value.String() != "" {
		tier = f.Value.String()
	}
	log.SetOutput(io.Discard)
	em := netrows.NewEmitter()
	total := 0
	for _, k := range netstacks.Kinds {
		em.Watch(k, "the rows of this stack", 3*time.Minute)
		n := rows(em, k, tier == "thorough")
		total += n
		em.Sample(map[string]any{"stack": k, "cases": n})
	}
	em.Watch("", "", 0)
	em.Stats(map[string]int{"evaluations": total, "stacks": len(netstacks.Kinds)})
}
