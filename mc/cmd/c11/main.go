// C11: an Ask returns its own handler's answer or an error, never another's.
// Controlled-scheduler exploration of concurrent asks on every ask-capable in-memory stack.
package main

import (
	"bytes"
	"context"
	"fmt"
	"time"

	"go.brendoncarroll.net/p2p"
	"go.brendoncarroll.net/p2p/p/mbapp"

	"verifmc/evid"
	"verifmc/explore"
	"verifmc/hx"
	"verifmc/netrows"
	"verifmc/stacks"
	"verifmc/vrt"
	"verifmc/vrt/vctx"
	"verifmc/vrt/vtime"
)

const bufCap = 8

type invocation struct {
	Server  string
	Tag     int
	ReqOK   bool
	Src     int
	N       int
	Written []byte
}

type askResult struct {
	Asker    string
	Tag      int
	Returned bool
	N        int
	Err      string
	Resp     []byte
	Started  bool
}

type ledger struct {
	cell      hx.Cell
	inv       []invocation
	asks      map[string]*askResult
	cancelled map[string]bool
	closeDone bool
	closeStep int
	askStart  map[string]int
}

func led(x *vrt.Exec) *ledger { return x.Data.(*ledger) }

type cfg struct {
	stack    stacks.Config
	askers   int   // concurrent askers (each one ask), on nodes 1..askers
	servers  int   // ServeAsk threads on node 0
	respLen  []int // response length per tag (negative = handler error)
	closer   bool
	cancel   bool // cancel asker A0's context at some point
	deadline bool // askers use a 5s virtual deadline instead of Background
	forge    bool // mbapp only: a third party sends a reply carrying the ask's group id
	preFail  bool // before the explored phase an ask fails at the server (nobody serves until its deadline)
	workers  int
}

func (c cfg) name() string {
	return fmt.Sprintf("%s-a%d-s%d-resp%v-close%v-cancel%v-dl%v-forge%v", c.stack.Kind, c.askers, c.servers, c.respLen, c.closer, c.cancel, c.deadline, c.forge) + fmt.Sprintf("-prefail%v-w%d", c.preFail, c.workers)
}

func reqPayload(tag int) []byte { return []byte{0xC0 + byte(tag), byte(tag), 0x11, 0x22, 0x33} }

func respByte(tag, i int) byte { return byte(0x40 + 16*tag + i) }

func parseReq(p []byte) int {
	if len(p) != 5 || p[0] != 0xC0+p[1] || p[2] != 0x11 || p[3] != 0x22 || p[4] != 0x33 {
		return -1
	}
	return int(p[1])
}

func scenario(c cfg, pb int) *explore.Scenario {
	sc := &explore.Scenario{Name: c.name(), PB: pb}
	sc.Setup = func(x *vrt.Exec) {
		x.Data = &ledger{asks: map[string]*askResult{}, cancelled: map[string]bool{}, askStart: map[string]int{}}
		x.MaxSteps = 8000
		x.TimerHorizon = 90 * time.Second
		x.NumWorkers = 1
	}
	sc.Body = func(x *vrt.Exec) {
		l := led(x)
		x.NumWorkers = c.workers
		st := stacks.Build(stacks.Config{Kind: c.stack.Kind, N: c.askers + 1, InnerMTU: c.stack.InnerMTU, MTU: c.stack.MTU, Workers: c.workers})
		server := st.Nodes[0]
		bg := context.Background()
		srvCtx, stopServers := hx.WithCancel(bg)
		if c.preFail {
			// history before the explored phase: one ask reaches the server while nobody is
			// serving and dies there when its deadline passes (deterministic, virtual time)
			x.NoBranch = true
			pctx, pcf := vctx.WithTimeout(bg, time.Second)
			buf := make([]byte, bufCap)
			_, err := st.Nodes[1].Ask(pctx, buf, 0, p2p.IOVec{[]byte("nobody-serves-this")})
			pcf()
			if err == nil {
				panic("pre-fail ask unexpectedly succeeded")
			}
			// let the server-side deadline of that request pass as well
			x.SettleUntil(3 * time.Second)
			x.NoBranch = false
		}
		for j := 0; j < c.servers; j++ {
			name := fmt.Sprintf("S%d", j)
			vrt.Go(name, func() {
				for {
					err := server.ServeAsk(srvCtx, func(ctx context.Context, resp []byte, m stacks.Msg) int {
						tag := parseReq(m.Payload)
						inv := invocation{Server: name, Tag: tag, ReqOK: tag >= 0, Src: m.Src}
						want := -1
						if tag >= 0 && tag < len(c.respLen) {
							want = c.respLen[tag]
						}
						vrt.PointAlways("handler body")
						if want < 0 || want > len(resp) {
							inv.N = -1
						} else {
							for i := 0; i < want; i++ {
								resp[i] = respByte(tag, i)
							}
							inv.N = want
							inv.Written = append([]byte{}, resp[:want]...)
						}
						l.cell.Touch()
						l.inv = append(l.inv, inv)
						return inv.N
					})
					if err != nil {
						return
					}
				}
			})
		}
		x.Settle()
		cancels := map[string]context.CancelFunc{}
		for a := 0; a < c.askers; a++ {
			a := a
			name := fmt.Sprintf("A%d", a)
			ctx, cf := hx.WithCancel(bg)
			if c.deadline {
				ctx, cf = vctx.WithTimeout(bg, 5*time.Second)
			}
			cancels[name] = cf
			res := &askResult{Asker: name, Tag: a}
			l.asks[name] = res
			node := st.Nodes[1+a]
			vrt.Go(name, func() {
				buf := make([]byte, bufCap)
				for i := range buf {
					buf[i] = 0xEE
				}
				req := reqPayload(a)
				l.cell.Touch()
				res.Started = true
				l.askStart[name] = x.Steps
				n, err := node.Ask(ctx, buf, 0, p2p.IOVec{req})
				l.cell.Touch()
				res.Returned, res.N, res.Resp = true, n, append([]byte{}, buf...)
				if err != nil {
					res.Err = err.Error()
				}
			})
		}
		if c.forge {
			vrt.Go("forger", func() {
				vrt.PointAlways("forge reply")
				hdr := mbapp.Header(make([]byte, mbapp.HeaderSize))
				hdr.SetIsAsk(true)
				hdr.SetIsReply(true)
				hdr.SetCounter(1)
				hdr.SetOriginTime(mbapp.NewPhaseTime32(vtime.Now().UTC(), time.Millisecond))
				hdr.SetPartIndex(0)
				hdr.SetPartCount(1)
				hdr.SetTotalSize(bufCap)
				hdr.SetTimeout(60000)
				st.Raw.Tell(bg, 1, p2p.IOVec{[]byte(hdr), []byte("FORGED!!")})
			})
		}
		if c.cancel {
			vrt.Go("canceller", func() {
				vrt.PointAlways("cancel A0")
				l.cell.Touch()
				l.cancelled["A0"] = true
				cancels["A0"]()
			})
		}
		if c.closer {
			vrt.Go("closer", func() {
				vrt.PointAlways("close server")
				server.Close()
				l.cell.Touch()
				l.closeDone = true
				l.closeStep = x.Steps
			})
		}
		vrt.Go("finalizer", func() {
			hx.WaitUntil(&l.cell, "finalizer: all asks returned", func() bool {
				for _, r := range l.asks {
					if !r.Returned {
						return false
					}
				}
				return !c.closer || l.closeDone
			})
			x.NoBranch = true
			stopServers()
			for _, n := range st.Nodes {
				n.Close()
			}
			for _, cl := range st.Underlying {
				cl()
			}
		})
	}
	sc.Check = func(x *vrt.Exec) []explore.Finding { return check(c, x) }
	sc.Outcome = func(x *vrt.Exec) string {
		l := led(x)
		s := ""
		for a := 0; a < c.askers; a++ {
			r := l.asks[fmt.Sprintf("A%d", a)]
			switch {
			case r == nil || !r.Returned:
				s += "A:pending "
			case r.Err != "":
				s += "A:err "
			default:
				s += fmt.Sprintf("A:n=%d ", r.N)
			}
		}
		s += fmt.Sprintf("inv=%d", len(l.inv))
		return s
	}
	return sc
}

func check(c cfg, x *vrt.Exec) []explore.Finding {
	l := led(x)
	site := c.stack.Kind
	var fs []explore.Finding
	add := func(kind, detail string) { fs = append(fs, explore.Finding{Kind: kind, Site: site, Detail: detail}) }
	if x.HorizonHit {
		add("step-horizon", "execution did not quiesce within the step horizon")
		return fs
	}
	for _, inv := range l.inv {
		if !inv.ReqOK {
			add("handler-saw-wrong-request", fmt.Sprintf("%s was invoked with a payload no asker sent", inv.Server))
			continue
		}
		if inv.Src != 1+inv.Tag {
			add("handler-saw-wrong-source", fmt.Sprintf("request %d attributed to node %d, asked by node %d", inv.Tag, inv.Src, 1+inv.Tag))
		}
	}
	for a := 0; a < c.askers; a++ {
		name := fmt.Sprintf("A%d", a)
		r := l.asks[name]
		if r == nil || !r.Started {
			continue
		}
		if !r.Returned {
			// all contexts are done by the horizon (deadline) or the ask is simply stuck
			if c.deadline || l.cancelled[name] {
				add("ask-ignores-context", fmt.Sprintf("Ask %s has not returned although its context ended", name))
			} else if c.closer {
				add("ask-blocked-after-close", fmt.Sprintf("Ask %s to a closed destination never returns (non-expiring context)", name))
			} else {
				add("ask-never-returns", fmt.Sprintf("Ask %s never returned although a server was serving", name))
			}
			continue
		}
		var invs []invocation
		for _, inv := range l.inv {
			if inv.Tag == a {
				invs = append(invs, inv)
			}
		}
		if r.Err != "" {
			continue // an error is always an acceptable outcome for this property
		}
		// success: must be exactly what one of its own handler invocations produced
		if len(invs) == 0 {
			add("success-without-handler", fmt.Sprintf("Ask %s returned (n=%d, nil) but no handler ever saw its request", name, r.N))
			continue
		}
		match := false
		neg := true
		for _, inv := range invs {
			if inv.N >= 0 {
				neg = false
				if inv.N == r.N && r.N <= len(r.Resp) && bytes.Equal(r.Resp[:r.N], inv.Written) {
					match = true
				}
			}
		}
		switch {
		case neg:
			add("handler-error-reported-as-success", fmt.Sprintf("Ask %s returned (n=%d, nil) although its handler returned a negative value", name, r.N))
		case !match:
			add("wrong-or-truncated-response", fmt.Sprintf("Ask %s returned n=%d resp=%x; its handler wrote %x", name, r.N, r.Resp[:min(r.N, len(r.Resp))], invs[0].Written))
		}
	}
	return fs
}

func min(a, b int) int {
	if a < b {
		return a
	}
	return b
}

func main() {
	run := evid.Start("C11", "model_checking")
	pb := evid.Pick(run, 1, 2)
	mk := func(kind string) stacks.Config {
		c := stacks.Config{Kind: kind}
		switch kind {
		case "mbapp", "mbapp-mux":
			c.InnerMTU, c.MTU = 64, 200
		}
		return c
	}
	kinds := []string{"mem", "mbapp", "mux-string", "wl", "multi-ask"}
	if run.Thorough() {
		kinds = []string{"mem", "mbapp", "mux-string", "mux-varint", "mux-uint16", "mux-uint32", "mux-uint64", "wl", "multi-ask", "mbapp-mux"}
	}
	var scs []*explore.Scenario
	for _, k := range kinds {
		s := mk(k)
		cfgs := []cfg{
			{stack: s, askers: 2, servers: 1, respLen: []int{1, bufCap}},
			{stack: s, askers: 2, servers: 2, respLen: []int{0, bufCap - 1}},
			{stack: s, askers: 1, servers: 1, respLen: []int{-1}},
			{stack: s, askers: 1, servers: 1, respLen: []int{bufCap + 1}},
			{stack: s, askers: 1, servers: 1, respLen: []int{3}, closer: true, deadline: true},
			{stack: s, askers: 1, servers: 1, respLen: []int{3}, cancel: true},
		}
		if k == "mbapp" || k == "mbapp-mux" {
			// multi-part request/response: response longer than one inner packet
			cfgs = append(cfgs, cfg{stack: stacks.Config{Kind: k, InnerMTU: 28, MTU: 200}, askers: 1, servers: 1, respLen: []int{bufCap}})
		}
		if k == "mbapp" {
			// two askers on different nodes whose multi-part requests are in flight at the same
			// (virtual) instant: their group ids coincide, reassembly must keep them apart by source
			cfgs = append(cfgs, cfg{stack: stacks.Config{Kind: k, InnerMTU: 28, MTU: 200}, askers: 2, servers: 2, respLen: []int{bufCap, 3}, workers: 2})
			// two receive workers after an ask that failed at the server (buffer recycling paths)
			cfgs = append(cfgs, cfg{stack: s, askers: 2, servers: 2, respLen: []int{bufCap, bufCap - 1}, preFail: true, workers: 2})
			// the asked server never answers; a third party forges a reply with the ask's id
			cfgs = append(cfgs, cfg{stack: s, askers: 1, servers: 0, respLen: []int{3}, deadline: true, forge: true})
		}
		if run.Thorough() {
			cfgs = append(cfgs,
				cfg{stack: s, askers: 2, servers: 1, respLen: []int{2, -1}, closer: true, deadline: true},
				cfg{stack: s, askers: 2, servers: 2, respLen: []int{bufCap, bufCap + 1}, cancel: true},
			)
		}
		for _, c := range cfgs {
			sc := scenario(c, pb)
			sc.MaxExecs = evid.Pick(run, 40000, 1500000)
			scs = append(scs, sc)
		}
	}
	explore.Main(run, scs, evid.Pick(run, 150*time.Second, 15*time.Minute))
	run.Set("preemption_bound", pb)
	run.Assume("QUIC and SSH ask paths are outside the scheduler; askers use buffers of 8 bytes; deadlines are virtual")
	// free-running rows for sshswarm / quicswarm (outside the controlled scheduler)
	if netrows.Run(run) {
		run.Assume("sshswarm and quicswarm rows run free on loopback (third-party goroutines and sockets): every listed call configuration is executed once under the runtime's own schedule; waits of 20-30 s only give up, the only timing verdict is 'has not returned long after its deadline'")
	}
	run.Finish()
}
