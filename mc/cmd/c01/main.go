// C01: every swarm delivers exactly what was told, to whom it was told.
package main

import (
	"time"

	"verifmc/evid"
	"verifmc/explore"
	"verifmc/sc/c01"
	"verifmc/stacks"
)

func main() {
	run := evid.Start("C01", "model_checking")
	pb := evid.Pick(run, 1, 2)
	var scs []*explore.Scenario
	for _, c := range c01.Configs(run.Thorough()) {
		sc := c01.Scenario(c, pb)
		sc.MaxExecs = evid.Pick(run, 30000, 1000000)
		scs = append(scs, sc)
	}
	_ = stacks.Kinds
	explore.Main(run, scs, evid.Pick(run, 160*time.Second, 18*time.Minute))
	run.Set("preemption_bound", pb)
	run.Assume("payload contents are self-describing patterns; UDP/QUIC/SSH stacks are outside the scheduler")
	run.Finish()
}
