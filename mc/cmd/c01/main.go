// C01: every swarm delivers exactly what was told, to whom it was told.
package main

import (
	"time"

	"verifmc/evid"
	"verifmc/explore"
	"verifmc/netrows"
	"verifmc/sc/c01"
	"verifmc/stacks"
)

func main() {
	run := evid.Start("C01", "model_checking")
	pb := evid.Pick(run, 1, 2)
	var scs []*explore.Scenario
	for _, c := range c01.Configs(run.Thorough()) {
		sc := c01.Scenario(c, pb)
		sc.MaxExecs = evid.Pick(run, 30000, 1000000)
		scs = append(scs, sc)
	}
	_ = stacks.Kinds
	// cheap and first: a channel closed while its handler still holds a message
	scs = append([]*explore.Scenario{c01.CloseDuringHandlerScenario(pb)}, scs...)
	explore.Main(run, scs, evid.Pick(run, 160*time.Second, 18*time.Minute))
	run.Set("preemption_bound", pb)
	run.Assume("payload contents are self-describing patterns; udpswarm runs over the virtual network")
	// free-running rows for sshswarm / quicswarm (outside the controlled scheduler)
	if netrows.Run(run) {
		run.Assume("sshswarm and quicswarm rows run free on loopback: every listed (length, direction, senders) case is executed once under the runtime's own schedule; waits of 30 s only give up")
	}
	run.Finish()
}
