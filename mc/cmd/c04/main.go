// C04: secure swarms attribute every message to the key its sender proved.
// p2pkeswarm part: honest nodes A, B and an attacker E (own key + raw access to the
// transport) on the in-memory transport; every adversary/usage script up to a depth
// bound runs on the instrumented code with a deterministic schedule.
// (The SSH and QUIC rows are free-running attacker-sequence enumerations in netrows.go.)
package main

import (
	"bytes"
	"context"
	"fmt"
	"strings"
	"time"

	"go.brendoncarroll.net/p2p"
	"go.brendoncarroll.net/p2p/f/x509"
	"go.brendoncarroll.net/p2p/s/memswarm"
	"go.brendoncarroll.net/p2p/s/p2pkeswarm"

	"verifmc/evid"
	"verifmc/explore"
	"verifmc/hx"
	"verifmc/netrows"
	"verifmc/pk"
	"verifmc/stacks"
	"verifmc/vrt"
)

type Addr = memswarm.Addr
type KAddr = p2pkeswarm.Addr[Addr]

type seen struct {
	Node    string
	SrcID   p2p.PeerID
	SrcN    int
	LookID  p2p.PeerID
	LookErr string
	Payload string
}

type captured struct {
	Src, Dst Addr
	Data     []byte
}

type ledger struct {
	cell    hx.Cell
	seen    []seen
	script  []string
	dialled map[string]bool // "A->B": A told to B's true address/identity
	// takenOver: number of messages seen when B's address changed hands (-1: it never did)
	takenOver int
	captured  []captured
	sentBy    map[string][]string // node -> payloads it told
}

func led(x *vrt.Exec) *ledger { return x.Data.(*ledger) }

type cfg struct {
	whitelist string // all | only-b | none
	depth     int
	// takeover: before the explored phase B tells A, then B goes away and a node holding E's
	// key comes to live at B's transport address (port reuse, NAT rebinding)
	takeover bool
}

func (c cfg) name() string {
	if c.takeover {
		return fmt.Sprintf("p2pkeswarm-whitelist-%s-depth%d-after-address-takeover", c.whitelist, c.depth)
	}
	return fmt.Sprintf("p2pkeswarm-whitelist-%s-depth%d", c.whitelist, c.depth)
}

// noClose keeps a transport endpoint alive when the secure swarm on top of it is closed.
type noClose struct{ p2p.Swarm[Addr] }

func (noClose) Close() error { return nil }

type node struct {
	name  string
	inner p2p.Swarm[Addr]
	sw    *p2pkeswarm.Swarm[Addr]
	id    p2p.PeerID
	addr  Addr
}

func settle(x *vrt.Exec) {
	for i := 0; i < 200; i++ {
		x.Settle()
		when, ok := x.NextTimer()
		if !ok || when > x.Now {
			return
		}
		x.FireNextTimer()
	}
}

func scenario(c cfg) *explore.Scenario {
	sc := &explore.Scenario{Name: c.name(), PB: 0, DB: 1, NoCache: true}
	sc.Setup = func(x *vrt.Exec) {
		x.Data = &ledger{dialled: map[string]bool{}, sentBy: map[string][]string{}, takenOver: -1}
		x.MaxSteps = 400000
		x.SchedDeterministic = true
		x.AutoTimers = false
	}
	sc.Body = func(x *vrt.Exec) {
		l := led(x)
		pk.SeedRandom(7, nil)
		defer pk.RestoreRandom()
		realm := memswarm.NewRealm(memswarm.WithQueueLen(64), memswarm.WithTellTransform(func(m *memswarm.Message) bool {
			l.captured = append(l.captured, captured{Src: m.Src, Dst: m.Dst, Data: append([]byte{}, m.Payload...)})
			return true
		}))
		nodes := map[string]*node{}
		ids := map[string]p2p.PeerID{}
		for i, name := range []string{"A", "B", "E"} {
			pub := pk.Pub(i)
			ids[name] = p2pkeswarm.DefaultFingerprinter(&pub)
		}
		mk := func(name string, keyIdx int, opts ...p2pkeswarm.Option[Addr]) *node {
			in := realm.NewSwarm()
			n := &node{name: name, inner: in, addr: in.LocalAddr(), id: ids[name]}
			n.sw = p2pkeswarm.New[Addr](noClose{in}, stacks.TestKeyN(keyIdx), opts...)
			nodes[name] = n
			return n
		}
		var wl func(KAddr) bool
		switch c.whitelist {
		case "all":
			wl = func(KAddr) bool { return true }
		case "only-b":
			wl = func(a KAddr) bool { return a.ID == ids["B"] }
		case "none":
			wl = func(KAddr) bool { return false }
		}
		a := mk("A", 0, p2pkeswarm.WithWhitelist[Addr](wl))
		b := mk("B", 1)
		e := mk("E", 2)
		raw := realm.NewSwarm() // the attacker's second foothold on the transport
		bg := context.Background()
		rctx, stop := hx.WithCancel(bg)
		var inners []p2p.Swarm[Addr]
		for _, n := range []*node{a, b, e} {
			inners = append(inners, n.inner)
		}
		var startRecv func(n *node)
		for _, n := range []*node{a, b, e} {
			n := n
			startRecv = func(n *node) {
				vrt.Go("recv-"+n.name, func() {
					for {
						if err := n.sw.Receive(rctx, func(m p2p.Message[KAddr]) {
							s := seen{Node: n.name, SrcID: m.Src.ID, SrcN: m.Src.Addr.N, Payload: string(m.Payload)}
							func() {
								defer func() {
									if r := recover(); r != nil {
										s.LookErr = fmt.Sprint(r)
									}
								}()
								k := p2p.LookupPublicKeyInHandler[KAddr, x509.PublicKey](n.sw, m.Src)
								s.LookID = p2pkeswarm.DefaultFingerprinter(&k)
							}()
							l.seen = append(l.seen, s)
						}); err != nil {
							return
						}
					}
				})
			}
			startRecv(n)
		}
		settle(x)
		tell := func(from *node, id p2p.PeerID, at Addr, payload string, label string) {
			l.script = append(l.script, label)
			l.sentBy[from.name] = append(l.sentBy[from.name], payload)
			ctx, cf := hx.WithCancel(bg)
			vrt.Go("tell-"+from.name, func() {
				from.sw.Tell(ctx, KAddr{ID: id, Addr: at}, p2p.IOVec{[]byte(payload)})
			})
			settle(x)
			cf()
			settle(x)
		}
		var e2 *node // E's key at B's transport address, after the takeover
		if c.takeover {
			tell(b, a.id, a.addr, "B-to-A", "B tells A")
			l.script = append(l.script, "B goes away; a node with E's key now listens at addrB")
			b.sw.Close()
			settle(x)
			l.takenOver = len(l.seen)
			e2 = &node{name: "E", inner: b.inner, addr: b.addr, id: ids["E"]}
			e2.sw = p2pkeswarm.New[Addr](noClose{b.inner}, stacks.TestKeyN(2))
			startRecv(e2)
			settle(x)
		}
		for step := 0; step < c.depth; step++ {
			type act struct {
				cost uint8
				do   func()
			}
			menu := []act{
				{0, func() { l.dialled["A->B"] = true; tell(a, b.id, b.addr, "A-to-B", "A tells B@addrB") }},
				{0, func() { tell(a, b.id, e.addr, "secret-for-B", "A tells B@addrE") }},
				{0, func() { tell(a, e.id, b.addr, "secret-for-E", "A tells E@addrB") }},
				{0, func() { l.dialled["A->E"] = true; tell(a, e.id, e.addr, "A-to-E", "A tells E@addrE") }},
				{0, func() { tell(e, a.id, a.addr, "E-to-A", "E tells A") }},
			}
			if e2 == nil {
				menu = append(menu, act{0, func() { tell(b, a.id, a.addr, "B-to-A", "B tells A") }})
			} else {
				menu = append(menu, act{0, func() { tell(e2, a.id, a.addr, "E-at-addrB-to-A", "E (at addrB) tells A") }})
			}
			// replays of captured traffic, from the raw foothold and from E's own address
			n := len(l.captured)
			for k := n - 1; k >= 0 && k >= n-4; k-- {
				cp := l.captured[k]
				if cp.Src == raw.LocalAddr() {
					continue
				}
				k := k
				menu = append(menu, act{1, func() {
					l.script = append(l.script, fmt.Sprintf("raw replays packet#%d (%v->%v) to A", k, cp.Src, cp.Dst))
					raw.Tell(bg, a.addr, p2p.IOVec{cp.Data})
					settle(x)
				}})
				menu = append(menu, act{1, func() {
					l.script = append(l.script, fmt.Sprintf("E's address replays packet#%d (%v->%v) to A", k, cp.Src, cp.Dst))
					e.inner.Tell(bg, a.addr, p2p.IOVec{cp.Data})
					settle(x)
				}})
			}
			costs := make([]uint8, len(menu)+1)
			for i, m := range menu {
				costs[i+1] = m.cost
			}
			k := x.Choose(len(menu)+1, costs, "script")
			if k == 0 {
				break
			}
			menu[k-1].do()
		}
		stop()
		for _, n := range []*node{a, b, e} {
			n.sw.Close()
		}
		if e2 != nil {
			e2.sw.Close()
		}
		for _, in := range inners {
			in.Close()
		}
		raw.Close()
		settle(x)
	}
	sc.Check = func(x *vrt.Exec) []explore.Finding {
		l := led(x)
		var fs []explore.Finding
		add := func(kind, detail string) {
			fs = append(fs, explore.Finding{Kind: kind, Site: "p2pkeswarm", Detail: fmt.Sprintf("whitelist=%s: %s; script: %s", c.whitelist, detail, strings.Join(l.script, " | "))})
		}
		if x.HorizonHit {
			add("step-horizon", "did not finish")
			return fs
		}
		ids := map[string]p2p.PeerID{}
		names := []string{"A", "B", "E"}
		for i, name := range names {
			pub := pk.Pub(i)
			ids[name] = p2pkeswarm.DefaultFingerprinter(&pub)
		}
		ownerOfAddr := func(n int) string {
			if n >= 0 && n < 3 {
				return names[n]
			}
			return "raw"
		}
		for i, s := range l.seen {
			owner := ownerOfAddr(s.SrcN)
			if s.SrcN == 1 && l.takenOver >= 0 && i >= l.takenOver {
				owner = "E" // B's transport address changed hands
			}
			if owner == "raw" {
				add("message-from-keyless-address", fmt.Sprintf("%s received %q from the raw address, which never completed a handshake", s.Node, s.Payload))
				continue
			}
			if s.SrcID != ids[owner] {
				add("wrong-identity-in-source", fmt.Sprintf("%s received %q from address %d (owned by %s) attributed to another identity", s.Node, s.Payload, s.SrcN, owner))
			}
			if s.LookErr != "" {
				add("lookup-in-handler-failed", fmt.Sprintf("%s: LookupPublicKey inside the handler failed: %s", s.Node, s.LookErr))
			} else if s.LookID != s.SrcID {
				add("lookup-key-mismatch", fmt.Sprintf("%s: LookupPublicKey(%d) inside the handler returned a key whose fingerprint is not the source identity", s.Node, s.SrcN))
			}
			ok := false
			for _, p := range l.sentBy[owner] {
				if p == s.Payload {
					ok = true
				}
			}
			if !ok {
				add("payload-not-sent-by-attributed-peer", fmt.Sprintf("%s received %q attributed to %s, who never told it", s.Node, s.Payload, owner))
			}
			if strings.HasPrefix(s.Payload, "A-to-") && s.Node != strings.TrimPrefix(s.Payload, "A-to-") {
				add("payload-delivered-to-wrong-identity", fmt.Sprintf("%s (without the addressed identity's key) received %q", s.Node, s.Payload))
			}
			if strings.HasPrefix(s.Payload, "secret-for-") && s.Node != strings.TrimPrefix(s.Payload, "secret-for-") {
				add("payload-delivered-to-wrong-identity", fmt.Sprintf("%s (without the addressed identity's key) received %q", s.Node, s.Payload))
			}
			if s.Node == "A" {
				allowed := c.whitelist == "all" || (c.whitelist == "only-b" && owner == "B")
				if !allowed {
					kind := "whitelist-bypass"
					if l.dialled["A->"+owner] {
						kind = "whitelist-bypass-after-dial"
					}
					add(kind, fmt.Sprintf("A delivered %q from %s although its whitelist rejects that peer", s.Payload, owner))
				}
			}
		}
		return fs
	}
	sc.Outcome = func(x *vrt.Exec) string {
		l := led(x)
		var parts []string
		for _, s := range l.seen {
			parts = append(parts, s.Node+"<-"+s.Payload)
		}
		return strings.Join(parts, ",")
	}
	return sc
}

var _ = bytes.Equal

func main() {
	run := evid.Start("C04", "model_checking")
	depth := evid.Pick(run, 3, 4)
	var scs []*explore.Scenario
	for _, wl := range []string{"all", "only-b", "none"} {
		scs = append(scs, scenario(cfg{whitelist: wl, depth: depth}))
	}
	for _, wl := range []string{"all", "only-b"} {
		scs = append(scs, scenario(cfg{whitelist: wl, depth: depth, takeover: true}))
	}
	netrows.Run(run)
	explore.Main(run, scs, evid.Pick(run, 120*time.Second, 15*time.Minute))
	run.Set("depth", depth)
	run.Assume("scheduling is deterministic (the subject is who is attributed, not races); SSH and QUIC are checked by free-running attacker-sequence enumeration (separate rows)")
	run.Finish()
}
