package c01

import (
	"context"
	"fmt"
	"time"

	"go.brendoncarroll.net/p2p"

	"verifmc/explore"
	"verifmc/hx"
	"verifmc/stacks"
	"verifmc/vrt"
)

// CloseDuringHandlerScenario: a receive callback on one multiplexed channel is still at work
// when its channel is closed; traffic for the node's other channel keeps arriving (the
// transport's queue holds a single slot, so the next message reuses the buffer). The message
// the callback holds must not change under it, whatever Close does to the hub.
func CloseDuringHandlerScenario(pb int) *explore.Scenario {
	const name = "mux-string-channel-closed-while-its-handler-runs"
	type res struct {
		cell             hx.Cell
		inHandler, later bool
		before, after    string
		otherGot         []string
	}
	sc := &explore.Scenario{Name: name, PB: pb}
	sc.Setup = func(x *vrt.Exec) {
		x.MaxSteps = 20000
		x.TimerHorizon = time.Second
		x.NumWorkers = 1
		x.Data = &res{}
	}
	sc.Body = func(x *vrt.Exec) {
		r := x.Data.(*res)
		x.NoBranch = true
		st := stacks.Build(stacks.Config{Kind: "mux-string", N: 2, InnerMTU: 64, QueueLen: 1})
		other := st.Extra["other"].([]*stacks.Node)
		bg, cf := hx.WithCancel(context.Background())
		vrt.Go("victim", func() {
			st.Nodes[0].Receive(bg, func(m stacks.Msg) {
				r.cell.Touch()
				r.before = string(m.Payload)
				r.inHandler = true
				// a slow handler: still reading its message after the channel was closed and
				// more traffic for the node has been processed
				hx.WaitUntil(&r.cell, "handler: slow", func() bool { return r.later })
				r.after = string(m.Payload)
			})
		})
		vrt.Go("other-receiver", func() {
			for other[0].Receive(bg, func(m stacks.Msg) {
				r.cell.Touch()
				r.otherGot = append(r.otherGot, string(m.Payload))
			}) == nil {
			}
		})
		x.Settle()
		st.Nodes[1].Tell(bg, 0, p2p.IOVec{[]byte("FFFFFFFFFFFFFFFF")})
		x.Settle()
		x.NoBranch = false
		if !r.inHandler {
			r.before = "vacuous"
			return
		}
		done := 0
		vrt.Go("closer", func() { st.Nodes[0].Close(); r.cell.Touch(); done++ })
		vrt.Go("sender", func() {
			for i := 0; i < 3; i++ {
				other[1].Tell(bg, 0, p2p.IOVec{[]byte(fmt.Sprintf("BBBBBBBBBBBBBBB%d", i))})
			}
			r.cell.Touch()
			done++
		})
		// the interleavings of Close, the later traffic and the library's own threads are explored
		hx.WaitUntil(&r.cell, "wait for closer and sender", func() bool { return done == 2 })
		x.Settle()
		r.cell.Touch()
		r.later = true
		x.Settle()
		x.NoBranch = true
		cf()
		for _, n := range append(append([]*stacks.Node{}, st.Nodes...), other...) {
			n.Close()
		}
		for _, cl := range st.Underlying {
			cl()
		}
	}
	sc.Check = func(x *vrt.Exec) []explore.Finding {
		r := x.Data.(*res)
		if x.HorizonHit {
			return []explore.Finding{{Kind: "step-horizon", Site: name, Detail: "did not finish"}}
		}
		if r.before == "vacuous" {
			return []explore.Finding{{Kind: "scenario-vacuous", Site: name, Detail: "the first message never reached the handler"}}
		}
		if r.after != "" && r.after != r.before {
			return []explore.Finding{{Kind: "payload-changed-during-callback", Site: "mux-string", Detail: fmt.Sprintf("the handler of channel chan-a was given %q; after its channel was closed and other traffic arrived the same buffer read %q", r.before, r.after)}}
		}
		return nil
	}
	sc.Outcome = func(x *vrt.Exec) string {
		r := x.Data.(*res)
		return fmt.Sprintf("before=%q after=%q other=%d", r.before, r.after, len(r.otherGot))
	}
	return sc
}
