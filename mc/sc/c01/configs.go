package c01

import (
	"strings"

	"verifmc/stacks"
)

// Configs enumerates (stack, size pair, sender placement, receivers, workers).
func Configs(thorough bool) []Cfg {
	var out []Cfg
	type sk struct {
		cfg   stacks.Config
		sizes [][2]int
	}
	mem := stacks.Config{Kind: "mem", InnerMTU: 64}
	frag := stacks.Config{Kind: "frag", InnerMTU: 40, MTU: 100} // part = 25
	mb := stacks.Config{Kind: "mbapp", InnerMTU: 64, MTU: 200}  // part = 40
	list := []sk{
		{mem, [][2]int{{0, 64}, {1, 63}}},
		{frag, [][2]int{{26, 25}, {27, 26}}},
		{mb, [][2]int{{41, 40}, {42, 41}}},
		{stacks.Config{Kind: "mux-string", InnerMTU: 64}, [][2]int{{0, 50}}},
		{stacks.Config{Kind: "multi", InnerMTU: 64}, [][2]int{{0, 64}}},
		{stacks.Config{Kind: "map", InnerMTU: 64}, [][2]int{{3, 64}}},
		{stacks.Config{Kind: "wl", InnerMTU: 64}, [][2]int{{3, 64}}},
		{stacks.Config{Kind: "p2pke"}, [][2]int{{60, 100}, {0, 100}}}, // two non-empty messages over one channel first
		{stacks.Config{Kind: "udp"}, [][2]int{{0, 100}}},
	}
	if thorough {
		list = []sk{
			{mem, [][2]int{{0, 64}, {1, 63}, {64, 64}}},
			{frag, [][2]int{{26, 25}, {50, 24}, {0, 100}, {1, 75}, {51, 51}, {100, 100}}},
			{stacks.Config{Kind: "frag", InnerMTU: 115, MTU: 300}, [][2]int{{101, 100}, {200, 99}}},
			{mb, [][2]int{{41, 40}, {80, 1}, {0, 200}, {39, 81}, {120, 120}}},
			{stacks.Config{Kind: "mux-string", InnerMTU: 64}, [][2]int{{0, 50}, {1, 30}}},
			{stacks.Config{Kind: "mux-varint", InnerMTU: 64}, [][2]int{{0, 50}}},
			{stacks.Config{Kind: "mux-uint16", InnerMTU: 64}, [][2]int{{0, 50}}},
			{stacks.Config{Kind: "mux-uint32", InnerMTU: 64}, [][2]int{{0, 50}}},
			{stacks.Config{Kind: "mux-uint64", InnerMTU: 64}, [][2]int{{0, 50}}},
			{stacks.Config{Kind: "multi", InnerMTU: 64}, [][2]int{{0, 64}, {5, 9}}},
			{stacks.Config{Kind: "map", InnerMTU: 64}, [][2]int{{3, 64}}},
			{stacks.Config{Kind: "wl", InnerMTU: 64}, [][2]int{{3, 64}}},
			{stacks.Config{Kind: "p2pke"}, [][2]int{{0, 100}, {7, 7}}},
			{stacks.Config{Kind: "frag-p2pke", InnerMTU: 576, MTU: 1200}, [][2]int{{542, 541}}}, // part = 576-20-15; the handshake needs > 80 bytes
			{stacks.Config{Kind: "mux-frag", InnerMTU: 40, MTU: 100}, [][2]int{{30, 10}}},
			{stacks.Config{Kind: "mbapp-mux", InnerMTU: 64, MTU: 200}, [][2]int{{40, 10}}},
			{stacks.Config{Kind: "multi-p2pke"}, [][2]int{{5, 60}}},
			{stacks.Config{Kind: "udp"}, [][2]int{{0, 1280}, {1, 500}}},
			{stacks.Config{Kind: "p2pke-udp"}, [][2]int{{3, 100}}},
		}
	}
	for _, s := range list {
		for i, sz := range s.sizes {
			c := Cfg{Stack: s.cfg, Sizes: sz, SameNode: i%2 == 0, Receivers: 1, Workers: 1}
			c.WarmUp = strings.Contains(s.cfg.Kind, "p2pke")
			out = append(out, c)
			if thorough {
				c2 := c
				c2.Receivers, c2.Workers, c2.SameNode = 2, 2, !c.SameNode
				out = append(out, c2)
			}
			if s.cfg.Kind == "mbapp" && i == 0 {
				c3 := c
				c3.NoFast = true
				out = append(out, c3)
			}
		}
	}
	return out
}
