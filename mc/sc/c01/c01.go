// Package c01 holds the scenarios of property C01 (every swarm delivers exactly what was
// told, to whom it was told); they are reused by C14 under the race detector.
package c01

import (
	"bytes"
	"context"
	"fmt"
	"strings"
	"time"

	"go.brendoncarroll.net/p2p"
	"go.brendoncarroll.net/p2p/p/mbapp"

	"verifmc/explore"
	"verifmc/hx"
	"verifmc/stacks"
	"verifmc/vrt"
)

// Gen is the self-describing payload of message m with length l.
func Gen(m, l int) []byte {
	p := make([]byte, l)
	for i := range p {
		p[i] = byte(31*(m+1) + 7*i + 3)
	}
	if l >= 1 {
		p[0] = 0xF0 | byte(m)
	}
	if l >= 3 {
		p[1], p[2] = byte(l>>8), byte(l)
	}
	return p
}

type sent struct {
	ID       int
	From     int
	To       int
	Len      int
	Returned bool
	Err      string
}

type got struct {
	Receiver string
	Src, Dst int
	DstText  string
	Payload  []byte
	Changed  bool // payload changed while the callback was holding it
}

type Ledger struct {
	Cell     hx.Cell
	Sent     []*sent
	Got      []got
	Mutated  []string // sender buffers found modified after Tell
	LocalOK  map[string]bool
	TellsRet int
}

func led(x *vrt.Exec) *Ledger { return x.Data.(*Ledger) }

type Cfg struct {
	Stack     stacks.Config
	Sizes     [2]int
	SameNode  bool // both senders on node 1 (shared per-destination state) or nodes 1 and 2
	Receivers int
	Workers   int
	NoFast    bool // mbapp: disable the single-part fast path
	WarmUp    bool // establish secure channels deterministically before the explored phase
}

func (c Cfg) Name() string {
	return fmt.Sprintf("%s-imtu%d-sizes%v-same%v-r%d-w%d-nofast%v", c.Stack.Kind, c.Stack.InnerMTU, c.Sizes, c.SameNode, c.Receivers, c.Workers, c.NoFast)
}

func Scenario(c Cfg, pb int) *explore.Scenario {
	sc := &explore.Scenario{Name: c.Name(), PB: pb}
	sc.Setup = func(x *vrt.Exec) {
		x.Data = &Ledger{LocalOK: map[string]bool{}}
		x.MaxSteps = 12000
		x.NumWorkers = c.Workers
		x.TimerHorizon = 2 * time.Second
	}
	sc.Body = func(x *vrt.Exec) {
		l := led(x)
		mbapp.VerifSetDisableFastPath(c.NoFast)
		cfg := c.Stack
		cfg.N = 3
		cfg.Workers = c.Workers
		st := stacks.Build(cfg)
		recvNode := st.Nodes[0]
		for _, a := range recvNode.Local() {
			l.LocalOK[a] = true
		}
		bg := context.Background()
		rctx, stopRecv := hx.WithCancel(bg)
		for j := 0; j < c.Receivers; j++ {
			name := fmt.Sprintf("R%d", j)
			vrt.Go(name, func() {
				for {
					err := recvNode.Receive(rctx, func(m stacks.Msg) {
						before := append([]byte{}, m.Payload...)
						vrt.PointAlways("callback holds message")
						vrt.PointAlways("callback holds message")
						g := got{Receiver: name, Src: m.Src, Dst: m.Dst, DstText: m.DstText, Payload: before}
						if !bytes.Equal(before, m.Payload) {
							g.Changed = true
						}
						// the callback owns the message: scribble over it
						for i := range m.Payload {
							m.Payload[i] = 0xDD
						}
						l.Cell.Touch()
						l.Got = append(l.Got, g)
					})
					if err != nil {
						return
					}
				}
			})
		}
		if c.WarmUp {
			// the handshake is the subject of C05-C07; here it runs deterministically so
			// that the explored phase is the concurrent data transfer
			x.NoBranch = true
			for _, from := range []int{1, 2} {
				id := 1 + from
				l.Sent = append(l.Sent, &sent{ID: id, From: from, To: 0, Len: 4, Returned: true})
				st.Nodes[from].Tell(bg, 0, p2p.IOVec{Gen(id, 4)})
			}
			x.Settle()
			x.NoBranch = false
		}
		x.Settle()
		for k := 0; k < 2; k++ {
			k := k
			from := 1
			if !c.SameNode && k == 1 {
				from = 2
			}
			s := &sent{ID: k, From: from, To: 0, Len: c.Sizes[k]}
			l.Sent = append([]*sent{s}, l.Sent...)
			vrt.Go(fmt.Sprintf("T%d", k), func() {
				payload := Gen(k, s.Len)
				cut := len(payload) / 2
				if k == 0 {
					cut = 0 // sender 0 passes a single contiguous slice, sender 1 a split vector
				}
				a, b := append([]byte{}, payload[:cut]...), append([]byte{}, payload[cut:]...)
				vec := p2p.IOVec{a, b}
				if k == 0 {
					vec = p2p.IOVec{b}
				}
				err := st.Nodes[from].Tell(bg, 0, vec)
				if !bytes.Equal(a, payload[:cut]) || !bytes.Equal(b, payload[cut:]) {
					l.Mutated = append(l.Mutated, fmt.Sprintf("T%d", k))
				}
				// the sender may reuse its buffers as soon as Tell has returned
				for i := range a {
					a[i] = 0xEE
				}
				for i := range b {
					b[i] = 0xEE
				}
				l.Cell.Touch()
				s.Returned = true
				if err != nil {
					s.Err = err.Error()
				}
				l.TellsRet++
			})
		}
		vrt.Go("finalizer", func() {
			hx.WaitUntil(&l.Cell, "finalizer: tells returned", func() bool { return l.TellsRet == 2 })
			hx.WaitQuiescent(&l.Cell)
			x.NoBranch = true
			stopRecv()
			for _, n := range st.Nodes {
				n.Close()
			}
			for _, cl := range st.Underlying {
				cl()
			}
		})
	}
	sc.Check = func(x *vrt.Exec) []explore.Finding { return check(c, x) }
	sc.Outcome = func(x *vrt.Exec) string {
		l := led(x)
		var parts []string
		for _, g := range l.Got {
			parts = append(parts, fmt.Sprintf("%d:%d", g.Src, len(g.Payload)))
		}
		for _, s := range l.Sent {
			if s.Err != "" {
				parts = append(parts, fmt.Sprintf("T%d:err", s.ID))
			}
		}
		return strings.Join(parts, " ")
	}
	return sc
}

func check(c Cfg, x *vrt.Exec) []explore.Finding {
	l := led(x)
	site := c.Stack.Kind
	var fs []explore.Finding
	add := func(kind, detail string) { fs = append(fs, explore.Finding{Kind: kind, Site: site, Detail: detail}) }
	if x.HorizonHit {
		add("step-horizon", "execution did not quiesce within the step horizon")
		return fs
	}
	for _, who := range l.Mutated {
		add("sender-buffer-modified", fmt.Sprintf("%s's buffers were modified by Tell", who))
	}
	for _, g := range l.Got {
		if g.Changed {
			add("payload-changed-during-callback", fmt.Sprintf("%s: the message changed while the callback was holding it", g.Receiver))
		}
		match := false
		for _, s := range l.Sent {
			if s.From == g.Src && len(g.Payload) == s.Len && bytes.Equal(g.Payload, Gen(s.ID, s.Len)) {
				match = true
			}
		}
		if !match {
			kind := "payload-not-sent"
			for _, s := range l.Sent {
				if bytes.Equal(g.Payload, Gen(s.ID, s.Len)) {
					kind = "wrong-source"
				} else if len(g.Payload) < s.Len && bytes.Equal(g.Payload, Gen(s.ID, s.Len)[:len(g.Payload)]) && s.From == g.Src {
					kind = "truncated"
				}
			}
			add(kind, fmt.Sprintf("%s got %d bytes %x.. attributed to node %d; told: %v", g.Receiver, len(g.Payload), head(g.Payload), g.Src, describe(l.Sent)))
		}
		if g.Dst != 0 || !l.LocalOK[g.DstText] {
			add("wrong-destination", fmt.Sprintf("message delivered to node 0 names destination %q (node %d), not one of its local addresses", g.DstText, g.Dst))
		}
	}
	if c.WarmUp {
		n := 0
		for _, g := range l.Got {
			if len(g.Payload) == 4 && (g.Payload[0] == 0xF2 || g.Payload[0] == 0xF3) {
				n++
			}
		}
		if n < 2 {
			add("warm-up-lost", fmt.Sprintf("only %d of 2 warm-up messages arrived over a loss-free transport", n))
		}
	}
	for _, s := range l.Sent {
		if !s.Returned {
			add("tell-never-returns", fmt.Sprintf("Tell T%d (len %d) did not return", s.ID, s.Len))
		}
	}
	return fs
}

func head(b []byte) []byte {
	if len(b) > 8 {
		return b[:8]
	}
	return b
}

func describe(ss []*sent) string {
	var parts []string
	for _, s := range ss {
		parts = append(parts, fmt.Sprintf("m%d: node %d, %d bytes", s.ID, s.From, s.Len))
	}
	return strings.Join(parts, "; ")
}
