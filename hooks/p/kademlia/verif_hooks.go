//go:build verif

package kademlia

import (
	"fmt"
	"sort"
	"strings"
)

// VerifDump renders the private state of the cache canonically (used as part of the
// explicit-state search key so that states differing only internally are not merged).
func (kc *Cache[V]) VerifDump() string {
	sb := strings.Builder{}
	fmt.Fprintf(&sb, "count=%d nb=%d;", kc.count, len(kc.buckets))
	for i, b := range kc.buckets {
		keys := make([]string, 0, len(b.entries))
		for k := range b.entries {
			keys = append(keys, k)
		}
		sort.Strings(keys)
		fmt.Fprintf(&sb, "b%d[min=%d:", i, b.minExpiresAt.UnixNano())
		for _, k := range keys {
			e := b.entries[k]
			fmt.Fprintf(&sb, "%x@%d/%d,", k, e.CreatedAt.UnixNano(), e.ExpiresAt.UnixNano())
		}
		sb.WriteString("]")
	}
	return sb.String()
}
