//go:build verif

package p2pmux

import "go.brendoncarroll.net/p2p"

// The framing functions are unexported; the codec enumeration of C15/C08 drives them
// directly.
func VerifStringMux(c string, x p2p.IOVec) p2p.IOVec          { return stringMuxFunc(c, x) }
func VerifStringDemux(b []byte) (string, []byte, error)       { return stringDemuxFunc(b) }
func VerifVarintMux(c uint64, x p2p.IOVec) p2p.IOVec          { return varintMuxFunc(c, x) }
func VerifVarintDemux(b []byte) (uint64, []byte, error)       { return varintDemuxFunc(b) }
func VerifUint16Mux(c uint16, x p2p.IOVec) p2p.IOVec          { return uint16MuxFunc(c, x) }
func VerifUint16Demux(b []byte) (uint16, []byte, error)       { return uint16DemuxFunc(b) }
func VerifUint32Mux(c uint32, x p2p.IOVec) p2p.IOVec          { return uint32MuxFunc(c, x) }
func VerifUint32Demux(b []byte) (uint32, []byte, error)       { return uint32DemuxFunc(b) }
func VerifUint64Mux(c uint64, x p2p.IOVec) p2p.IOVec          { return uint64MuxFunc(c, x) }
func VerifUint64Demux(b []byte) (uint64, []byte, error)       { return uint64DemuxFunc(b) }
