//go:build verif

package p2pke

import (
	"time"

	"github.com/flynn/noise"

	"go.brendoncarroll.net/p2p/f/x509"
)

// Read-only accessors (and one counter setter for the message-limit scenario) used by the
// explicit-state checks; nothing here is compiled without the verif tag.

func (s *Session) VerifHsIndex() uint8 { return s.hsIndex }
func (s *Session) VerifNonce() uint64  { return s.nonce }

// VerifSetNonce moves the outbound counter (the 2^32 message limit cannot be reached by
// sending).
func (s *Session) VerifSetNonce(n uint64) { s.nonce = n }

// VerifBinding returns the handshake's channel binding (transcript hash).
func (s *Session) VerifBinding() []byte {
	if s.hs == nil {
		return nil
	}
	return append([]byte{}, s.hs.ChannelBinding()...)
}

type VerifSlot struct {
	Present   bool
	IsInit    bool
	HsIndex   uint8
	Ready     bool
	Nonce     uint64
	ExpiresAt time.Time
	ID        [32]byte
	Session   *Session
}

// VerifSlots snapshots the previous/current/next session slots of a channel.
func (c *Channel) VerifSlots() (out [3]VerifSlot) {
	c.mu.RLock()
	defer c.mu.RUnlock()
	for i, se := range c.sessions {
		if se.Session == nil {
			continue
		}
		out[i] = VerifSlot{Present: true, IsInit: se.Session.isInit, HsIndex: se.Session.hsIndex, Ready: se.Session.IsReady(), Nonce: se.Session.nonce, ExpiresAt: se.Session.expiresAt, ID: se.ID, Session: se.Session}
	}
	return out
}

func (c *Channel) VerifTimersPending() (rekey, handshake bool) {
	return c.rekeyTimer.IsPending(), c.handshakeTimer.IsPending()
}

// ---- attacker toolkit support (C03): the harness speaks the wire protocol by hand ----

const (
	VerifPurposeChannelBinding = purposeChannelBinding
	VerifPurposeTimestamp      = purposeTimestamp
)

func VerifCipherSuite() noise.CipherSuite { return v1CipherSuite }

// VerifSign produces a purpose-tagged signature exactly as the library does.
func VerifSign(reg x509.Registry, key x509.PrivateKey, purpose string, msg []byte) []byte {
	sig, err := sign(nil, &privateKey{Registry: reg, Key: key}, purpose, msg)
	if err != nil {
		panic(err)
	}
	return sig
}
