//go:build verif

package mbapp

// VerifSetDisableFastPath toggles the single-part fast path (package variable that the
// repository's own tests flip as well).
func VerifSetDisableFastPath(b bool) { disableFastPath = b }
