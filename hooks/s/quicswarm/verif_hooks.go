//go:build verif

package quicswarm

import (
	"io"

	"go.brendoncarroll.net/p2p"
)

// The stream framing helpers are unexported; C08/C09 drive them directly.
func VerifReadFrame(src io.Reader, dst []byte, maxLen int) (int, error) { return readFrame(src, dst, maxLen) }
func VerifWriteFrame(w io.Writer, data p2p.IOVec) error                 { return writeFrame(w, data) }
