//go:build verif

package fragswarm

import "go.brendoncarroll.net/p2p"

// VerifSetNextMsgID presets the per-destination message id counter so that header sizes
// of long-running senders (multi-byte varint ids, wrap-around) can be reached directly.
func VerifSetNextMsgID[A p2p.Addr](x p2p.Swarm[A], dst A, id uint32) bool {
	s, ok := x.(*swarm[A])
	if !ok {
		return false
	}
	s.mu.Lock()
	defer s.mu.Unlock()
	s.msgIDs[keyForAddr(dst)] = id
	return true
}
