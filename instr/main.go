// instr rewrites the concurrency vocabulary of selected go-p2p packages to the vrt shims
// (see /verif/DESIGN.md section 2.1). It reads /repo's current working tree, writes the
// rewritten copies of the files that need it into -out and prints a go-build overlay
// "Replace" map on stdout. An unsupported construct is a hard error.
package main

import (
	"bytes"
	"encoding/json"
	"flag"
	"fmt"
	"go/ast"
	"go/printer"
	"go/token"
	"go/types"
	"os"
	"path/filepath"
	"sort"
	"strconv"
	"strings"

	"golang.org/x/tools/go/ast/astutil"
	"golang.org/x/tools/go/packages"
)

const modPath = "go.brendoncarroll.net/p2p"

var defaultPkgs = []string{
	"s/swarmutil", "s/vswarm", "s/memswarm", "s/fragswarm", "p/mbapp", "p/p2pmux",
	"s/multiswarm", "s/mapswarm", "s/wlswarm", "p/p2pke", "s/p2pkeswarm", "p/kademlia",
	"s/udpswarm",
}

const (
	pVrt      = "verifmc/vrt"
	pVchan    = "verifmc/vrt/vchan"
	pVsync    = "verifmc/vrt/vsync"
	pVatomic  = "verifmc/vrt/vatomic"
	pVtime    = "verifmc/vrt/vtime"
	pVctx     = "verifmc/vrt/vctx"
	pErrgroup = "verifmc/vrt/verrgroup"
)

var importSwap = map[string]string{
	"sync":                       pVsync,
	"sync/atomic":                pVatomic,
	"golang.org/x/sync/errgroup": pErrgroup,
	"net":                        "verifmc/vrt/vnet",
}

var timeFuncs = map[string]bool{"Now": true, "Since": true, "Until": true, "After": true, "AfterFunc": true, "NewTimer": true, "NewTicker": true, "Sleep": true, "Timer": true, "Ticker": true}
var timeForbidden = map[string]bool{"Tick": true}
var ctxFuncs = map[string]bool{"WithTimeout": true, "WithDeadline": true, "WithCancel": true}
var ctxForbidden = map[string]bool{"AfterFunc": true, "WithTimeoutCause": true, "WithDeadlineCause": true, "WithCancelCause": true}

type fileCtx struct {
	pkg   *packages.Package
	file  *ast.File
	fset  *token.FileSet
	instr map[string]bool // instrumented package paths

	// decisions taken in the typed pre-pass, keyed by original node
	chanExternal map[ast.Expr]bool        // operand of <-x / send target is a native channel
	chanBuiltin  map[*ast.CallExpr]string // close/len/cap on a channel, "make" for make(chan)
	mapRange     map[*ast.RangeStmt]bool
	defRHS       map[types.Object]ast.Expr
	inComm       map[ast.Node]bool // recv expressions / send stmts that are select comms

	need    map[string]bool // shim imports to add
	changed bool
	errs    []string
	tmpN    int
}

func (c *fileCtx) errorf(n ast.Node, format string, args ...any) {
	pos := c.fset.Position(n.Pos())
	c.errs = append(c.errs, fmt.Sprintf("%s: %s", pos, fmt.Sprintf(format, args...)))
}

func (c *fileCtx) tmp(prefix string) string {
	c.tmpN++
	return fmt.Sprintf("_v%s%d", prefix, c.tmpN)
}

func isChan(t types.Type) bool {
	if t == nil {
		return false
	}
	_, ok := t.Underlying().(*types.Chan)
	if ok {
		return true
	}
	if tp, ok := t.(*types.TypeParam); ok {
		_ = tp
	}
	return false
}

func (c *fileCtx) pkgInternal(p *types.Package) bool {
	if p == nil {
		return false
	}
	return c.instr[p.Path()] || p.Path() == "time"
}

// internal decides whether the channel denoted by e is owned by instrumented code (and
// therefore has been rewritten to *vchan.Chan) or is a native channel from elsewhere.
func (c *fileCtx) internal(e ast.Expr, depth int) (bool, bool) {
	if depth > 8 {
		return false, false
	}
	info := c.pkg.TypesInfo
	switch e := e.(type) {
	case *ast.ParenExpr:
		return c.internal(e.X, depth+1)
	case *ast.CallExpr:
		if id, ok := e.Fun.(*ast.Ident); ok && id.Name == "make" {
			return true, true
		}
		var obj types.Object
		switch f := e.Fun.(type) {
		case *ast.Ident:
			obj = info.Uses[f]
		case *ast.SelectorExpr:
			obj = info.Uses[f.Sel]
		case *ast.IndexExpr: // generic instantiation f[T](...)
			switch g := f.X.(type) {
			case *ast.Ident:
				obj = info.Uses[g]
			case *ast.SelectorExpr:
				obj = info.Uses[g.Sel]
			}
		}
		if obj == nil {
			return false, false
		}
		if _, isVar := obj.(*types.Var); isVar {
			// call of a function value: owned by whoever declared its type; be conservative
			return false, false
		}
		return c.pkgInternal(obj.Pkg()), true
	case *ast.SelectorExpr:
		if sel := info.Selections[e]; sel != nil {
			return c.pkgInternal(sel.Obj().Pkg()), true
		}
		if obj := info.Uses[e.Sel]; obj != nil {
			return c.pkgInternal(obj.Pkg()), true
		}
		return false, false
	case *ast.Ident:
		obj := info.Uses[e]
		if obj == nil {
			obj = info.Defs[e]
		}
		if obj == nil {
			return false, false
		}
		if rhs, ok := c.defRHS[obj]; ok {
			return c.internal(rhs, depth+1)
		}
		return c.pkgInternal(obj.Pkg()), true
	case *ast.IndexExpr:
		return c.internal(e.X, depth+1)
	case *ast.StarExpr:
		return c.internal(e.X, depth+1)
	}
	return false, false
}

func (c *fileCtx) classify(e ast.Expr, at ast.Node) {
	in, ok := c.internal(e, 0)
	if !ok {
		c.errorf(at, "cannot decide whether channel expression is instrumented-owned or native")
		return
	}
	if !in {
		c.chanExternal[e] = true
	}
}

func (c *fileCtx) prepass() {
	info := c.pkg.TypesInfo
	// record := definitions so that local aliases of external channels are classified
	ast.Inspect(c.file, func(n ast.Node) bool {
		if as, ok := n.(*ast.AssignStmt); ok && as.Tok == token.DEFINE && len(as.Lhs) == len(as.Rhs) {
			for i, l := range as.Lhs {
				if id, ok := l.(*ast.Ident); ok {
					if obj := info.Defs[id]; obj != nil && isChan(obj.Type()) {
						c.defRHS[obj] = as.Rhs[i]
					}
				}
			}
		}
		return true
	})
	ast.Inspect(c.file, func(n ast.Node) bool {
		switch n := n.(type) {
		case *ast.SelectStmt:
			for _, cl := range n.Body.List {
				cc := cl.(*ast.CommClause)
				if cc.Comm == nil {
					continue
				}
				c.inComm[cc.Comm] = true
				switch s := cc.Comm.(type) {
				case *ast.ExprStmt:
					c.inComm[s.X] = true
				case *ast.AssignStmt:
					c.inComm[s.Rhs[0]] = true
				}
			}
		case *ast.UnaryExpr:
			if n.Op == token.ARROW {
				c.classify(n.X, n)
			}
		case *ast.SendStmt:
			c.classify(n.Chan, n)
		case *ast.CallExpr:
			if id, ok := n.Fun.(*ast.Ident); ok {
				if b, ok := info.Uses[id].(*types.Builtin); ok {
					switch b.Name() {
					case "close":
						c.chanBuiltin[n] = "close"
						c.classify(n.Args[0], n)
					case "len", "cap":
						if isChan(info.TypeOf(n.Args[0])) {
							c.chanBuiltin[n] = b.Name()
							c.classify(n.Args[0], n)
						}
					case "make":
						if _, ok := n.Args[0].(*ast.ChanType); ok {
							c.chanBuiltin[n] = "make"
						} else if isChan(info.TypeOf(n.Args[0])) {
							c.errorf(n, "make of a named channel type is not supported")
						}
					}
				}
			}
		case *ast.RangeStmt:
			t := info.TypeOf(n.X)
			if t != nil {
				switch t.Underlying().(type) {
				case *types.Map:
					c.mapRange[n] = true
				case *types.Chan:
					c.errorf(n, "range over channel is not supported")
				}
			}
		case *ast.LabeledStmt:
			if _, ok := n.Stmt.(*ast.SelectStmt); ok {
				c.errorf(n, "labeled select is not supported")
			}
		case *ast.SelectorExpr:
			if id, ok := n.X.(*ast.Ident); ok {
				if pn, ok := info.Uses[id].(*types.PkgName); ok {
					switch pn.Imported().Path() {
					case "time":
						if timeForbidden[n.Sel.Name] {
							c.errorf(n, "time.%s is not supported", n.Sel.Name)
						}
					case "context":
						if ctxForbidden[n.Sel.Name] {
							c.errorf(n, "context.%s is not supported", n.Sel.Name)
						}
					case "reflect":
						if n.Sel.Name == "Select" {
							c.errorf(n, "reflect.Select is not supported")
						}
					}
				}
			}
		}
		return true
	})
}

func sel(pkg, name string) *ast.SelectorExpr {
	return &ast.SelectorExpr{X: ast.NewIdent(pkg), Sel: ast.NewIdent(name)}
}

func call(fun ast.Expr, args ...ast.Expr) *ast.CallExpr { return &ast.CallExpr{Fun: fun, Args: args} }

func (c *fileCtx) use(p string) { c.need[p] = true; c.changed = true }

func (c *fileCtx) chanTypeOf(elem ast.Expr) ast.Expr {
	c.use(pVchan)
	return &ast.StarExpr{X: &ast.IndexExpr{X: sel("vchan", "Chan"), Index: elem}}
}

// elemOfRewritten extracts T from *vchan.Chan[T].
func elemOfRewritten(e ast.Expr) ast.Expr {
	if st, ok := e.(*ast.StarExpr); ok {
		if ix, ok := st.X.(*ast.IndexExpr); ok {
			return ix.Index
		}
	}
	return nil
}

func (c *fileCtx) rewriteSelect(s *ast.SelectStmt) ast.Stmt {
	c.use(pVchan)
	var pre []ast.Stmt
	var caseArgs []ast.Expr
	var clauses []ast.Stmt
	hasDefault := false
	idx := 0
	for _, cl := range s.Body.List {
		cc := cl.(*ast.CommClause)
		if cc.Comm == nil {
			hasDefault = true
			clauses = append(clauses, &ast.CaseClause{List: []ast.Expr{&ast.UnaryExpr{Op: token.SUB, X: &ast.BasicLit{Kind: token.INT, Value: "1"}}}, Body: cc.Body})
			continue
		}
		name := c.tmp("c")
		var body []ast.Stmt
		mk := func(recvX ast.Expr, orig ast.Expr) {
			// recvX is the (already rewritten) channel operand
			ctor := "NewRecv"
			if c.chanExternal[orig] {
				ctor = "NewExt"
			}
			pre = append(pre, &ast.AssignStmt{Lhs: []ast.Expr{ast.NewIdent(name)}, Tok: token.DEFINE, Rhs: []ast.Expr{call(sel("vchan", ctor), recvX)}})
		}
		switch st := cc.Comm.(type) {
		case *ast.SendStmt:
			if c.chanExternal[st.Chan] {
				c.errorf(st, "send on a native channel in select is not supported")
			}
			pre = append(pre, &ast.AssignStmt{Lhs: []ast.Expr{ast.NewIdent(name)}, Tok: token.DEFINE, Rhs: []ast.Expr{call(sel("vchan", "NewSend"), st.Chan, st.Value)}})
		case *ast.ExprStmt:
			u, ok := st.X.(*ast.UnaryExpr)
			if !ok || u.Op != token.ARROW {
				c.errorf(st, "unsupported select comm")
				continue
			}
			mk(u.X, u.X)
		case *ast.AssignStmt:
			u, ok := st.Rhs[0].(*ast.UnaryExpr)
			if !ok || u.Op != token.ARROW {
				c.errorf(st, "unsupported select comm")
				continue
			}
			mk(u.X, u.X)
			rhs := []ast.Expr{&ast.SelectorExpr{X: ast.NewIdent(name), Sel: ast.NewIdent("V")}}
			if len(st.Lhs) == 2 {
				rhs = append(rhs, &ast.SelectorExpr{X: ast.NewIdent(name), Sel: ast.NewIdent("OK")})
			}
			body = append(body, &ast.AssignStmt{Lhs: st.Lhs, Tok: st.Tok, Rhs: rhs})
			if st.Tok == token.DEFINE {
				// avoid "declared and not used" for names the arm does not use
				for _, l := range st.Lhs {
					if id, ok := l.(*ast.Ident); ok && id.Name != "_" {
						body = append(body, &ast.AssignStmt{Lhs: []ast.Expr{ast.NewIdent("_")}, Tok: token.ASSIGN, Rhs: []ast.Expr{ast.NewIdent(id.Name)}})
					}
				}
			}
		default:
			c.errorf(cc, "unsupported select comm")
			continue
		}
		caseArgs = append(caseArgs, ast.NewIdent(name))
		body = append(body, cc.Body...)
		clauses = append(clauses, &ast.CaseClause{List: []ast.Expr{&ast.BasicLit{Kind: token.INT, Value: strconv.Itoa(idx)}}, Body: body})
		idx++
	}
	hd := "false"
	if hasDefault {
		hd = "true"
	}
	args := append([]ast.Expr{ast.NewIdent(hd)}, caseArgs...)
	// a switch is a terminating statement only with a default clause; Unreachable unwinds
	// the thread when the execution is being torn down and otherwise reports a bug.
	clauses = append(clauses, &ast.CaseClause{Body: []ast.Stmt{&ast.ExprStmt{X: call(ast.NewIdent("panic"), call(sel("vchan", "Unreachable")))}}})
	sw := &ast.SwitchStmt{Tag: call(sel("vchan", "Select"), args...), Body: &ast.BlockStmt{List: clauses}}
	return &ast.BlockStmt{List: append(pre, sw)}
}

func pureExpr(e ast.Expr) bool {
	switch e := e.(type) {
	case *ast.Ident:
		return true
	case *ast.SelectorExpr:
		return pureExpr(e.X)
	case *ast.ParenExpr:
		return pureExpr(e.X)
	case *ast.StarExpr:
		return pureExpr(e.X)
	case *ast.IndexExpr:
		return pureExpr(e.X) && pureExpr(e.Index)
	case *ast.BasicLit:
		return true
	}
	return false
}

func (c *fileCtx) rewriteMapRange(r *ast.RangeStmt) ast.Stmt {
	c.use(pVrt)
	if !pureExpr(r.X) {
		c.errorf(r, "range over a map produced by a non-trivial expression is not supported")
		return r
	}
	keyName := ""
	var keyExpr ast.Expr
	if r.Key != nil {
		if id, ok := r.Key.(*ast.Ident); ok && id.Name != "_" {
			keyName = id.Name
		} else if !ok {
			keyExpr = r.Key
		}
	}
	tok := r.Tok
	if r.Key == nil {
		tok = token.DEFINE
	}
	var pre []ast.Stmt
	iterKey := keyName
	if tok != token.DEFINE || keyName == "" {
		iterKey = c.tmp("k")
	}
	if tok != token.DEFINE && (keyName != "" || keyExpr != nil) {
		lhs := keyExpr
		if lhs == nil {
			lhs = ast.NewIdent(keyName)
		}
		pre = append(pre, &ast.AssignStmt{Lhs: []ast.Expr{lhs}, Tok: token.ASSIGN, Rhs: []ast.Expr{ast.NewIdent(iterKey)}})
	}
	okName := c.tmp("ok")
	var valLhs ast.Expr = ast.NewIdent("_")
	valTok := token.ASSIGN
	if r.Value != nil {
		if id, ok := r.Value.(*ast.Ident); !ok || id.Name != "_" {
			valLhs = r.Value
		}
	}
	lookupTok := token.DEFINE
	_ = valTok
	var lookup ast.Stmt
	if tok == token.DEFINE {
		lookup = &ast.AssignStmt{Lhs: []ast.Expr{valLhs, ast.NewIdent(okName)}, Tok: lookupTok, Rhs: []ast.Expr{&ast.IndexExpr{X: r.X, Index: ast.NewIdent(iterKey)}}}
	} else {
		// assignment form: declare ok separately
		pre = append(pre, &ast.DeclStmt{Decl: &ast.GenDecl{Tok: token.VAR, Specs: []ast.Spec{&ast.ValueSpec{Names: []*ast.Ident{ast.NewIdent(okName)}, Type: ast.NewIdent("bool")}}}})
		lookup = &ast.AssignStmt{Lhs: []ast.Expr{valLhs, ast.NewIdent(okName)}, Tok: token.ASSIGN, Rhs: []ast.Expr{&ast.IndexExpr{X: r.X, Index: ast.NewIdent(iterKey)}}}
	}
	skip := &ast.IfStmt{Cond: &ast.UnaryExpr{Op: token.NOT, X: ast.NewIdent(okName)}, Body: &ast.BlockStmt{List: []ast.Stmt{&ast.BranchStmt{Tok: token.CONTINUE}}}}
	body := append(pre, lookup, skip)
	if id, ok := valLhs.(*ast.Ident); ok && id.Name != "_" && tok == token.DEFINE {
		body = append(body, &ast.AssignStmt{Lhs: []ast.Expr{ast.NewIdent("_")}, Tok: token.ASSIGN, Rhs: []ast.Expr{ast.NewIdent(id.Name)}})
	}
	// the original body keeps its own scope (it may redeclare the loop variables)
	body = append(body, r.Body)
	return &ast.RangeStmt{Key: ast.NewIdent("_"), Value: ast.NewIdent(iterKey), Tok: token.DEFINE, X: call(sel("vrt", "MapKeys"), r.X), Body: &ast.BlockStmt{List: body}}
}

func (c *fileCtx) rewriteGo(g *ast.GoStmt) ast.Stmt {
	c.use(pVrt)
	callExpr := g.Call
	var pre []ast.Stmt
	// evaluate arguments now, run the call in the new thread
	if len(callExpr.Args) > 0 && !callExpr.Ellipsis.IsValid() {
		var names []ast.Expr
		for range callExpr.Args {
			names = append(names, ast.NewIdent(c.tmp("g")))
		}
		pre = append(pre, &ast.AssignStmt{Lhs: names, Tok: token.DEFINE, Rhs: callExpr.Args})
		callExpr = &ast.CallExpr{Fun: callExpr.Fun, Args: names}
	}
	// receiver / function value
	if _, isLit := callExpr.Fun.(*ast.FuncLit); !isLit && !pureExpr(callExpr.Fun) {
		fn := c.tmp("f")
		pre = append(pre, &ast.AssignStmt{Lhs: []ast.Expr{ast.NewIdent(fn)}, Tok: token.DEFINE, Rhs: []ast.Expr{callExpr.Fun}})
		callExpr = &ast.CallExpr{Fun: ast.NewIdent(fn), Args: callExpr.Args}
	}
	spawn := &ast.ExprStmt{X: call(sel("vrt", "Go"), &ast.BasicLit{Kind: token.STRING, Value: `"go"`},
		&ast.FuncLit{Type: &ast.FuncType{Params: &ast.FieldList{}}, Body: &ast.BlockStmt{List: []ast.Stmt{&ast.ExprStmt{X: callExpr}}}})}
	if len(pre) == 0 {
		return spawn
	}
	return &ast.BlockStmt{List: append(pre, spawn)}
}

func (c *fileCtx) rewrite() {
	info := c.pkg.TypesInfo
	pkgNameOf := func(id *ast.Ident) string {
		if pn, ok := info.Uses[id].(*types.PkgName); ok {
			return pn.Imported().Path()
		}
		return ""
	}
	post := func(cur *astutil.Cursor) bool {
		switch n := cur.Node().(type) {
		case *ast.ChanType:
			cur.Replace(c.chanTypeOf(n.Value))
		case *ast.CallExpr:
			switch c.chanBuiltin[n] {
			case "make":
				elem := elemOfRewritten(n.Args[0])
				if elem == nil {
					c.errorf(n, "internal: make(chan) argument was not rewritten")
					return true
				}
				var size ast.Expr = &ast.BasicLit{Kind: token.INT, Value: "0"}
				if len(n.Args) > 1 {
					size = n.Args[1]
				}
				c.use(pVchan)
				cur.Replace(call(&ast.IndexExpr{X: sel("vchan", "Make"), Index: elem}, size))
			case "close", "len", "cap":
				if c.chanExternal[n.Args[0]] {
					c.errorf(n, "%s of a native channel is not supported", c.chanBuiltin[n])
					return true
				}
				m := map[string]string{"close": "Close", "len": "Len", "cap": "Cap"}[c.chanBuiltin[n]]
				c.changed = true
				cur.Replace(call(&ast.SelectorExpr{X: n.Args[0], Sel: ast.NewIdent(m)}))
			default:
				// runtime.GOMAXPROCS(0) -> vrt.NumWorkers()
				if se, ok := n.Fun.(*ast.SelectorExpr); ok && se.Sel.Name == "GOMAXPROCS" {
					if id, ok := se.X.(*ast.Ident); ok && pkgNameOf(id) == "runtime" {
						c.use(pVrt)
						cur.Replace(call(sel("vrt", "NumWorkers")))
					}
				}
			}
		case *ast.SendStmt:
			if c.inComm[n] {
				return true
			}
			if c.chanExternal[n.Chan] {
				c.errorf(n, "send on a native channel is not supported")
				return true
			}
			c.changed = true
			cur.Replace(&ast.ExprStmt{X: call(&ast.SelectorExpr{X: n.Chan, Sel: ast.NewIdent("Send")}, n.Value)})
		case *ast.UnaryExpr:
			if n.Op != token.ARROW || c.inComm[n] {
				return true
			}
			if c.chanExternal[n.X] {
				if _, ok := cur.Parent().(*ast.ExprStmt); !ok {
					c.errorf(n, "value received from a native channel is not supported")
					return true
				}
				c.use(pVchan)
				cur.Replace(call(sel("vchan", "RecvExt"), n.X))
				return true
			}
			c.changed = true
			method := "Recv"
			if as, ok := cur.Parent().(*ast.AssignStmt); ok && len(as.Lhs) == 2 && len(as.Rhs) == 1 {
				method = "Recv2"
			}
			if vs, ok := cur.Parent().(*ast.ValueSpec); ok && len(vs.Names) == 2 && len(vs.Values) == 1 {
				method = "Recv2"
			}
			cur.Replace(call(&ast.SelectorExpr{X: n.X, Sel: ast.NewIdent(method)}))
		case *ast.SelectStmt:
			cur.Replace(c.rewriteSelect(n))
		case *ast.GoStmt:
			cur.Replace(c.rewriteGo(n))
		case *ast.RangeStmt:
			if c.mapRange[n] {
				cur.Replace(c.rewriteMapRange(n))
			}
		case *ast.SelectorExpr:
			id, ok := n.X.(*ast.Ident)
			if !ok {
				return true
			}
			switch pkgNameOf(id) {
			case "time":
				if timeFuncs[n.Sel.Name] {
					c.use(pVtime)
					cur.Replace(sel("vtime", n.Sel.Name))
				}
			case "context":
				if ctxFuncs[n.Sel.Name] {
					c.use(pVctx)
					cur.Replace(sel("vctx", n.Sel.Name))
				}
			}
		}
		return true
	}
	astutil.Apply(c.file, nil, post)
	// import swaps
	for _, imp := range c.file.Imports {
		p, _ := strconv.Unquote(imp.Path.Value)
		if np, ok := importSwap[p]; ok {
			local := filepath.Base(p)
			if imp.Name != nil {
				local = imp.Name.Name
			}
			imp.Name = ast.NewIdent(local)
			imp.Path.Value = strconv.Quote(np)
			c.changed = true
		}
	}
}

func (c *fileCtx) finish() {
	// keep possibly-unused imports alive
	var keep []ast.Decl
	for _, imp := range c.file.Imports {
		p, _ := strconv.Unquote(imp.Path.Value)
		local := filepath.Base(p)
		if imp.Name != nil {
			local = imp.Name.Name
		}
		var ref ast.Expr
		switch p {
		case "time":
			ref = sel(local, "Now")
		case "context":
			ref = sel(local, "Background")
		case "runtime":
			ref = sel(local, "GOMAXPROCS")
		}
		if ref != nil && local != "_" && local != "." {
			keep = append(keep, &ast.GenDecl{Tok: token.VAR, Specs: []ast.Spec{&ast.ValueSpec{Names: []*ast.Ident{ast.NewIdent("_")}, Values: []ast.Expr{ref}}}})
		}
	}
	c.file.Decls = append(c.file.Decls, keep...)
	names := map[string]string{pVrt: "vrt", pVchan: "vchan", pVtime: "vtime", pVctx: "vctx"}
	var ps []string
	for p := range c.need {
		ps = append(ps, p)
	}
	sort.Strings(ps)
	for _, p := range ps {
		astutil.AddNamedImport(c.fset, c.file, names[p], p)
	}
}

func main() {
	repo := flag.String("repo", "/repo", "repository root")
	out := flag.String("out", "", "output directory")
	pkgList := flag.String("pkgs", strings.Join(defaultPkgs, ","), "comma separated package dirs relative to the repo")
	flag.Parse()
	if *out == "" {
		fmt.Fprintln(os.Stderr, "-out required")
		os.Exit(2)
	}
	os.MkdirAll(*out, 0o755)
	var patterns []string
	instr := map[string]bool{}
	for _, p := range strings.Split(*pkgList, ",") {
		patterns = append(patterns, "./"+p)
		instr[modPath+"/"+p] = true
	}
	cfg := &packages.Config{
		Mode: packages.NeedName | packages.NeedFiles | packages.NeedCompiledGoFiles | packages.NeedSyntax | packages.NeedTypes | packages.NeedTypesInfo | packages.NeedImports,
		Dir:  *repo,
		Env:  append(os.Environ(), "GOFLAGS=-mod=mod"),
	}
	pkgs, err := packages.Load(cfg, patterns...)
	if err != nil {
		fmt.Fprintln(os.Stderr, "load:", err)
		os.Exit(2)
	}
	repl := map[string]string{}
	var allErrs []string
	for _, pkg := range pkgs {
		for _, e := range pkg.Errors {
			allErrs = append(allErrs, "type error: "+e.Error())
		}
		for i, f := range pkg.Syntax {
			path := pkg.CompiledGoFiles[i]
			if strings.HasSuffix(path, ".pb.go") {
				continue
			}
			for _, cg := range f.Comments {
				for _, cm := range cg.List {
					if strings.HasPrefix(cm.Text, "//go:") && !strings.HasPrefix(cm.Text, "//go:generate") {
						allErrs = append(allErrs, fmt.Sprintf("%s: //go: directive in an instrumented file is not supported", path))
					}
				}
			}
			c := &fileCtx{pkg: pkg, file: f, fset: pkg.Fset, instr: instr,
				chanExternal: map[ast.Expr]bool{}, chanBuiltin: map[*ast.CallExpr]string{}, mapRange: map[*ast.RangeStmt]bool{},
				defRHS: map[types.Object]ast.Expr{}, inComm: map[ast.Node]bool{}, need: map[string]bool{}}
			c.prepass()
			if len(c.errs) == 0 {
				c.rewrite()
			}
			allErrs = append(allErrs, c.errs...)
			if !c.changed || len(c.errs) > 0 {
				continue
			}
			c.finish()
			f.Comments = nil
			var buf bytes.Buffer
			buf.WriteString("// Code generated by /verif/instr from " + path + "; DO NOT EDIT.\n")
			if err := printer.Fprint(&buf, pkg.Fset, f); err != nil {
				allErrs = append(allErrs, fmt.Sprintf("%s: print: %v", path, err))
				continue
			}
			rel, _ := filepath.Rel(*repo, path)
			dst := filepath.Join(*out, strings.ReplaceAll(rel, "/", "__"))
			if err := os.WriteFile(dst, buf.Bytes(), 0o644); err != nil {
				allErrs = append(allErrs, err.Error())
				continue
			}
			repl[path] = dst
		}
	}
	if len(allErrs) > 0 {
		for _, e := range allErrs {
			fmt.Fprintln(os.Stderr, "instr:", e)
		}
		os.Exit(1)
	}
	json.NewEncoder(os.Stdout).Encode(repl)
}
