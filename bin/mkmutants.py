#!/usr/bin/env python3
"""(Re)generates /verif/mutants/*.diff from the table below: each mutant is a realistic
property-breaking edit expressed as exact text replacements on the current /repo tree."""
import subprocess, sys, os
M = {
 # name: [(file, old, new), ...]
 "c01-frag-scratch-buffer-hoisted": [("s/fragswarm/fragswarm.go",
   "	mu     sync.Mutex\n	aggs   map[aggKey]*aggregator", "	scratch []byte\n	mu     sync.Mutex\n	aggs   map[aggKey]*aggregator"),
   ("s/fragswarm/fragswarm.go", "	data2 := p2p.VecBytes(nil, data)", "	s.scratch = p2p.VecBytes(s.scratch[:0], data)\n	data2 := s.scratch")],
 "c01-queue-delivervec-aliases-sender": [("s/swarmutil/queue.go",
   "		m2.Payload = p2p.VecBytes(m2.Payload[:0], v)", "		if len(v) == 1 {\n			m2.Payload = v[0]\n		} else {\n			m2.Payload = p2p.VecBytes(m2.Payload[:0], v)\n		}")],
 "c01-multiswarm-swaps-src-dst": [("s/multiswarm/multiswarm.go",
   "						Src:     Addr{Scheme: tname, Addr: m.Src},\n						Dst:     Addr{Scheme: tname, Addr: m.Dst},", "						Src:     Addr{Scheme: tname, Addr: m.Dst},\n						Dst:     Addr{Scheme: tname, Addr: m.Src},")],
 "c01-mbapp-last-part-offset": [("p/mbapp/fragment.go",
   "		offset = len(c.buf) - len(data)", "		offset = len(data) * partIndex")],
 "c02-replay-filter-not-consulted": [("p/p2pke/session.go",
   "		if !s.rp.ValidateCounter(uint64(nonce), MaxNonce) {\n			return false, nil, nil\n		}", "		s.rp.ValidateCounter(uint64(nonce), MaxNonce)")],
 "c02-counter-allocated-non-atomically": [("p/p2pke/session.go",
   "	nonce := atomic.AddUint64(&s.nonce, 1) - 1", "	nonce := atomic.LoadUint64(&s.nonce)\n	atomic.StoreUint64(&s.nonce, nonce+1)")],
 "c02-responder-receives-before-initdone": [("p/p2pke/session.go",
   "	return s.hsIndex >= nonceInitDone\n", "	return s.cipherIn != nil\n")],
 "c02-same-cipher-both-directions": [("p/p2pke/session.go",
   "	outCipher = cs1.Cipher()\n	inCipher = cs2.Cipher()", "	if !initiator {\n		cs1, cs2 = cs2, cs1\n	}\n	outCipher = cs1.Cipher()\n	inCipher = cs1.Cipher()")],
 "c02-expiry-only-checked-on-send": [("p/p2pke/session.go",
   "func (s *Session) Deliver(out []byte, incoming []byte, now time.Time) (bool, []byte, error) {\n	if err := s.checkExpired(now); err != nil {\n		return false, nil, err\n	}", "func (s *Session) Deliver(out []byte, incoming []byte, now time.Time) (bool, []byte, error) {")],
 "c02-message-limit-off-by-two": [("p/p2pke/session.go",
   "	if atomic.LoadUint64(&s.nonce) >= MaxNonce {", "	if atomic.LoadUint64(&s.nonce) > MaxNonce+1 {"),
   ("p/p2pke/session.go", "	if s.nonce >= MaxNonce {\n		return errors.New(\"session has exceeded message limit\")", "	if s.nonce > MaxNonce+2 {\n		return errors.New(\"session has exceeded message limit\")")],
 "c03-initdone-signature-not-verified": [("p/p2pke/session.go",
   "	if err := verify(pubKey, purposeChannelBinding, cb, initDone.Sig); err != nil {\n		return nil, err\n	}", "	_, _ = cb, initDone")],
 "c03-responder-ready-after-inithello": [("p/p2pke/session.go",
   "	return (s.isInit && s.hsIndex >= nonceRespDone) || (!s.isInit && s.hsIndex >= nonceInitDone)", "	return (s.isInit && s.hsIndex >= nonceRespDone) || (!s.isInit && s.hsIndex >= nonceRespHello)"),
   ("p/p2pke/session.go", "	return s.hsIndex >= nonceInitDone\n}", "	return s.hsIndex >= nonceRespHello\n}")],
 "c03-resphello-signature-over-wrong-data-accepted": [("p/p2pke/session.go",
   "	pubKey, err := verifyAuthClaim(reg, purposeChannelBinding, respHello.KeyX509, cb, respHello.Sig)\n	if err != nil {\n		return nil, err\n	}", "	pubKey, err := verifyAuthClaim(reg, purposeChannelBinding, respHello.KeyX509, cb, respHello.Sig)\n	if err != nil {\n		pk2, err2 := x509.ParsePublicKey(respHello.KeyX509)\n		if err2 != nil || len(respHello.Sig) != 64 {\n			return nil, err\n		}\n		pubKey = publicKey{Registry: reg, Key: pk2}\n	}")],
 "c03-early-data-gate-removed": [("p/p2pke/session.go",
   "		if !s.canReceive() {\n			return false, nil, ErrEarlyData{State: s.hsIndex, Nonce: nonce}\n		}", "		if s.cipherIn == nil {\n			return false, nil, ErrEarlyData{State: s.hsIndex, Nonce: nonce}\n		}")],
 "c04-p2pkeswarm-dial-without-id-comparison": [("s/p2pkeswarm/swarm.go",
   "		if remoteID == addr.ID {\n			return c.Channel, nil\n		}", "		if remoteID == addr.ID || !remoteID.IsZero() {\n			return c.Channel, nil\n		}"),
   ("s/p2pkeswarm/swarm.go", "						id := s.config.fingerprinter(pubKey)\n						return id == addr.ID", "						id := s.config.fingerprinter(pubKey)\n						return id == addr.ID || true")],
 "c04-p2pkeswarm-whitelist-only-on-inbound-handshake": [("s/p2pkeswarm/swarm.go",
   "		if !s.config.whitelist(Addr[T]{ID: srcID, Addr: msg.Src}) {", "		if false && !s.config.whitelist(Addr[T]{ID: srcID, Addr: msg.Src}) {")],
 "c04-quicswarm-dial-without-id-check": [("s/quicswarm/quicswarm.go",
   "	if !(peerAddr.ID == dst.ID) {", "	if false && !(peerAddr.ID == dst.ID) {")],
 "c04-sshswarm-hostkey-accepts-any": [("s/sshswarm/conn.go",
   "			if fp != remoteAddr.Fingerprint {", "			if false && fp != remoteAddr.Fingerprint {")],
 "c04-sshswarm-identity-from-last-offered-key": [("s/sshswarm/conn.go",
   "			return &ssh.Permissions{Extensions: map[string]string{pubKeyExt: string(pk.Marshal())}}, nil", "			lastOffered = pk\n			return &ssh.Permissions{Extensions: map[string]string{pubKeyExt: string(pk.Marshal())}}, nil"),
   ("s/sshswarm/conn.go", "	const pubKeyExt = \"sshswarm-public-key\"", "	const pubKeyExt = \"sshswarm-public-key\"\n	var lastOffered ssh.PublicKey"),
   ("s/sshswarm/conn.go", "	pubKey, err := ssh.ParsePublicKey([]byte(sconn.Permissions.Extensions[pubKeyExt]))\n	if err != nil {\n		sconn.Close()\n		return nil, err\n	}", "	pubKey, err := ssh.ParsePublicKey([]byte(sconn.Permissions.Extensions[pubKeyExt]))\n	if err != nil {\n		sconn.Close()\n		return nil, err\n	}\n	pubKey = lastOffered")],
 "c14-p2pkeswarm-store-get-without-lock": [("s/p2pkeswarm/store.go",
   "func (s *store[K, V]) getOrCreate(k K, fn func() V) V {\n	s.mu.Lock()\n	defer s.mu.Unlock()\n	v, exists := s.m[k]", "func (s *store[K, V]) getOrCreate(k K, fn func() V) V {\n	if v, exists := s.m[k]; exists {\n		return v\n	}\n	s.mu.Lock()\n	defer s.mu.Unlock()\n	v, exists := s.m[k]")],
 "c14-mbapp-removeask-without-lock": [("p/mbapp/asker.go",
   "func (a *asker) removeAsk(id askID) {\n	a.mu.Lock()\n	defer a.mu.Unlock()\n	delete(a.inFlight, id)", "func (a *asker) removeAsk(id askID) {\n	delete(a.inFlight, id)")],
 "c14-p2pke-timer-ispending-without-lock": [("p/p2pke/timer.go",
   "	t.mu.Lock()\n	defer t.mu.Unlock()\n	t.isPending = true\n	t.timer.Reset(d)", "	t.isPending = true\n	t.mu.Lock()\n	defer t.mu.Unlock()\n	t.timer.Reset(d)")],
 "c14-channel-lastsent-without-lock": [("p/p2pke/channel.go",
   "func (c *Channel) LastReceived() time.Time {\n	c.mu.RLock()\n	defer c.mu.RUnlock()\n	return c.lastReceived", "func (c *Channel) LastReceived() time.Time {\n	return c.lastReceived")],
 "c14-cache-count-without-lock": [("p/kademlia/cache.go",
   "func (kc *Cache[V]) Count() int {\n	kc.mu.RLock()\n	defer kc.mu.RUnlock()\n	return kc.count", "func (kc *Cache[V]) Count() int {\n	return kc.count")],
 "c14-frag-msgids-without-lock": [("s/fragswarm/fragswarm.go",
   "	s.mu.Lock()\n	id := s.msgIDs[keyForAddr(addr)]\n	s.msgIDs[keyForAddr(addr)]++\n	s.mu.Unlock()", "	id := s.msgIDs[keyForAddr(addr)]\n	s.msgIDs[keyForAddr(addr)]++")],
 "c05-checkkey-accepts-when-no-key-yet": [("p/p2pke/channel.go",
   "	} else if c.remoteKey.IsZero() && c.params.AcceptKey(pubKey) {\n		return nil\n	}", "	} else if c.remoteKey.IsZero() {\n		return nil\n	}")],
 "c05-onready-without-same-key-comparison": [("p/p2pke/channel.go",
   "	if !c.remoteKey.IsZero() && !x509.EqualPublicKeys(&c.remoteKey, &sessRemote) {\n		c.setNext(sessionEntry{})\n		return errors.New(\"session negotiated with wrong peer\")\n	}", ""),
   ("p/p2pke/channel.go", "	if err := c.checkKey(&sessRemote); err != nil {\n		c.setNext(sessionEntry{})\n		return err\n	}", "	if c.remoteKey.IsZero() && !c.params.AcceptKey(&sessRemote) {\n		c.setNext(sessionEntry{})\n		return errors.New(\"key rejected\")\n	}")],
 "c05-initiator-not-key-checked": [("p/p2pke/channel.go",
   "	if err := c.checkKey(&sessRemote); err != nil {\n		c.setNext(sessionEntry{})\n		return err\n	}\n", "")],
 "c05-appdata-before-promotion": [("p/p2pke/channel.go",
   "			// if the session became ready, then make it the current and notify.", "			if isApp {\n				appData = out\n				return nil, nil\n			}\n			// if the session became ready, then make it the current and notify.")],
 "c06-initiator-counter-not-set-at-resphello": [("p/p2pke/session.go",
   "		s.nonce = noncePostHandshake\n		s.hsIndex = 2", "		s.hsIndex = 2")],
 "c06-initdone-accepted-in-any-state": [("p/p2pke/session.go",
   "	case !s.isInit && s.hsIndex == 1 && nonce == nonceInitDone:", "	case !s.isInit && s.hsIndex >= 1 && nonce == nonceInitDone:")],
 "c08-p2pke-parsemessage-no-length-check": [("p/p2pke/messages.go",
   "	if len(x) < 4 {\n		return nil, errors.Errorf(\"p2pke: too short to be message\")\n	}", "	if len(x) < 1 {\n		return nil, errors.Errorf(\"p2pke: too short to be message\")\n	}")],
 "c08-p2pke-inithello-negative-start": [("p/p2pke/messages.go",
   "	if start < 0 {\n		return nil, errors.New(\"InitHello has invalid length\")\n	}", "	if start < -4096 {\n		return nil, errors.New(\"InitHello has invalid length\")\n	}")],
 "c08-uint16-demux-no-size-test": [("p/p2pmux/uint16mux.go",
   "	if len(data) < size {\n		return 0, nil, errors.Errorf(\"too short to be uint16\")\n	}", "	if len(data) < 1 {\n		return 0, nil, errors.Errorf(\"too short to be uint16\")\n	}")],
 "c08-frag-addpart-bounds-check-removed": [("s/fragswarm/fragswarm.go",
   "	if int(part) >= len(a.parts) {\n		// a later packet contradicts the part count announced by the first one\n		return false\n	}\n", "")],
 "c08-mbapp-negative-offset-check-removed": [("p/mbapp/fragment.go",
   "	if offset < 0 {\n		return errors.Errorf(\"part of len=%d does not fit in buf of len=%d\", len(data), len(c.buf))\n	}\n", "")],
 "c08-mbapp-total-size-not-bounded-by-mtu": [("p/mbapp/swarm.go",
   "	if totalSize > uint32(s.mtu) {\n		return fmt.Errorf(\"total message size exceeds mtu %d\", s.mtu)\n	}", "	_ = fmt.Sprint")],
 "c09-frag-mtu-test-off-by-one": [("s/fragswarm/fragswarm.go",
   "	if p2p.VecSize(data) > s.MTU() {", "	if p2p.VecSize(data) >= s.MTU() {")],
 "c09-frag-overhead-underestimated": [("s/fragswarm/fragswarm.go",
   "const Overhead = 3 * binary.MaxVarintLen32", "const Overhead = 3 * 2")],
 "c09-p2pkeswarm-mtu-without-overhead": [("s/p2pkeswarm/swarm.go",
   "	n := s.inner.MTU() - Overhead", "	n := s.inner.MTU()")],
 "c09-mux-mtu-ignores-header": [("p/p2pmux/mux.go",
   "	n := p2p.VecSize(ms.m.muxFunc(ms.cid, nil))\n	return m - n", "	return m - 2")],
 "c09-mbapp-partsize-off-by-one": [("p/mbapp/swarm.go",
   "	partSize := (mtu - HeaderSize)\n", "	partSize := (mtu - HeaderSize) + 1\n")],
 "c10-frag-aggkey-without-addr": [("s/fragswarm/fragswarm.go",
   "	key := aggKey{addr: keyForAddr(x.Src), id: id}", "	key := aggKey{id: id}")],
 "c10-mbapp-allset-off-by-one": [("p/mbapp/bitmap.go",
   "	for i := 0; i < l; i++ {\n		if !bm.get(i) {", "	for i := 0; i < l-1; i++ {\n		if !bm.get(i) {")],
 "c10-mbapp-collector-ignores-remote": [("p/mbapp/fragment.go",
   "	cid := collectorID{Remote: remote.String(), GroupID: gid}", "	cid := collectorID{GroupID: gid}")],
 "c10-frag-addpart-completes-on-count": [("s/fragswarm/fragswarm.go",
   "	a.parts[int(part)] = append([]byte{}, data...)\n	for i := range a.parts {\n		if a.parts[i] == nil {\n			return false\n		}\n	}\n	return true", "	a.parts[int(part)] = append([]byte{}, data...)\n	a.n++\n	return a.n == len(a.parts)"),
   ("s/fragswarm/fragswarm.go", "	createdAt time.Time\n	parts     [][]byte\n}", "	createdAt time.Time\n	parts     [][]byte\n	n         int\n}")],
 "c11-mbapp-reply-lookup-ignores-addr": [("p/mbapp/swarm.go",
   "	id := askID{GroupID: GroupID{Counter: counter, OriginTime: originTime}, Addr: dst.String()}", "	id := askID{GroupID: GroupID{Counter: counter, OriginTime: originTime}}"),
   ("p/mbapp/swarm.go", "		GroupID: id,\n		Addr:    src.String(),", "		GroupID: id,")],
 "c11-vswarm-negative-handler-result-is-success": [("s/vswarm/vswarm.go",
   "	if n < 0 {\n		return n, fmt.Errorf(\"error during ask %v\", n)\n	}", "	if n < 0 {\n		_ = fmt.Sprint(n)\n		return 0, nil\n	}")],
 "c11-mux-serveloop-zero-on-error": [("p/p2pmux/mux.go",
   "				logctx.Warnln(ctx, err)\n				return -1", "				logctx.Warnln(ctx, err)\n				return 0")],
 "c12-queue-receive-ignores-closed": [("s/swarmutil/queue.go",
   "	case <-q.closed:\n		return p2p.ErrClosed\n	case msg := <-q.queue:", "	case msg := <-q.queue:")],
 "c12-mux-close-forgets-askhub": [("p/p2pmux/mux.go",
   "	ms.tellHub.CloseWithError(p2p.ErrClosed)\n	ms.askHub.CloseWithError(p2p.ErrClosed)", "	ms.tellHub.CloseWithError(p2p.ErrClosed)")],
 "c12-mbapp-close-forgets-tells": [("p/mbapp/swarm.go",
   "	s.asks.CloseWithError(p2p.ErrClosed)\n	s.tells.CloseWithError(p2p.ErrClosed)", "	s.asks.CloseWithError(p2p.ErrClosed)")],
 "c12-p2pkeswarm-close-forgets-hub": [("s/p2pkeswarm/swarm.go",
   "	err := s.inner.Close()\n	s.hub.CloseWithError(p2p.ErrClosed)", "	err := s.inner.Close()")],
 "c12-tellhub-receive-blocking-ignores-closed": [("s/swarmutil/hubs.go",
   "		case <-q.closed:\n			return q.err\n		case req, ok := <-q.delivers:", "		case req, ok := <-q.delivers:")],
 "c12-askhub-nil-close-error": [("s/swarmutil/hubs.go",
   "func (q *AskHub[A]) CloseWithError(err error) {\n	if err == nil {\n		err = p2p.ErrClosed\n	}", "func (q *AskHub[A]) CloseWithError(err error) {")],
}
def main():
    only = sys.argv[1:] 
    if subprocess.run(['git','-C','/repo','status','--porcelain'],capture_output=True,text=True).stdout.strip():
        print('/repo not clean'); sys.exit(2)
    for name, edits in M.items():
        if only and name not in only: continue
        try:
            for f, old, new in edits:
                p = os.path.join('/repo', f)
                s = open(p).read()
                if old not in s:
                    raise Exception('pattern not found in %s: %r' % (f, old[:60]))
                open(p,'w').write(s.replace(old, new, 1))
            d = subprocess.run(['git','-C','/repo','diff'],capture_output=True,text=True).stdout
            b = subprocess.run(['go','build','./...'],cwd='/repo',capture_output=True,text=True)
            if b.returncode != 0:
                raise Exception('does not compile: ' + b.stderr[:300])
            open('/verif/mutants/%s.diff' % name,'w').write(d)
            print('ok', name)
        except Exception as e:
            print('FAILED', name, e)
        finally:
            subprocess.run(['git','-C','/repo','checkout','--','.'])
main()
