# sourced by every command of the framework
export GOFLAGS=-mod=mod GOPROXY=off GOSUMDB=off GOTOOLCHAIN=local
export VERIF_ROOT=/verif
export GOCACHE=${GOCACHE:-/root/.cache/go-build}
