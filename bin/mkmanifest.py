#!/usr/bin/env python3
"""Regenerates /verif/MANIFEST.json from the table below (kept in one place so the
manifest is always valid and in step with what is actually built)."""
import json, os

ALL = ["C%02d" % i for i in range(1, 21)]

# id -> (category, technique, level text, level note, design ref, engine)
CHECKS = {
 "C15": ("model_checking",
         "exhaustive codec grid on the real framing functions + controlled-scheduler exploration of dispatch with raw invalid frames",
         "Codec: for all five multiplexer kinds every (channel, payload) of a boundary grid (empty/1/2-byte/127/128-byte/0x80-leading/NUL-containing strings; 0, 1, 127, 128, 2^14+-1, 2^16-1, 2^32-1, 2^63, 2^64-1; nil/empty/1-2 byte/frame-shaped payloads) must round-trip, all frames must be pairwise distinct and appending bytes must never change the parsed channel; every byte string of length <=4 over {00,01,02,7f,80,ff} plus 1-10 byte varint prefixes is fed to each demux (must not panic). Dispatch: the real muxes with every explored subset of three channels open (incl. the zero-value channel), a remote mux telling or asking on all three and a raw peer injecting invalid frames as tells and asks, all schedules within the bound: each swarm sees only what was sent on its channel, closed channels get nothing, invalid frames are answered by nobody.",
         "Channel ids/payloads beyond the grids; dispatch runs with preemption bound 0 (quick) / 1 (thorough).",
         "5/C15", "gosched"),
 "C16": ("model_checking",
         "exhaustive grid enumeration of generated and harvested addresses through the real marshal/parse codecs",
         "Every address of the grid (11 IPs incl. IPv4-mapped and zoned IPv6 x 4 ports, peer ids, 64+ seeded SSH fingerprints covering the whole base64 alphabet, memswarm ids, identity@transport for quic/p2pke over udp/mem/ssh, scheme://inner with six scheme names and nested multiswarms) plus LocalAddrs of live udp/quic/p2pke/ssh swarms on IPv4 and IPv6 loopback is marshalled and re-parsed (deep equality); every string of length <=4 over a 12-symbol alphabet and structured mutations of valid addresses are fed to every parser, which must fail cleanly or be stable.",
         "Scheme names containing '://' (application-chosen map keys) are outside the domain; values beyond the grid.",
         "5/C16", "seqmc"),
 "C17": ("model_checking",
         "exhaustive grid enumeration of algorithm identifiers x key bodies, peer ids and candidate texts through the real codecs",
         "Every ASN.1-encodable OID of length 2-4 over arcs {0,1,2,39,40,127,128,2^31-1} plus the registered ones, crossed with 9 key bodies: Parse(Marshal(k))==k, EqualPublicKeys <=> equal encodings over all pairs, fingerprints equal across p2pkeswarm/quicswarm and independent of the wire spelling (explicit NULL parameters); 30 peer ids: text round trip, order preservation over all pairs, and every single-symbol corruption with symbols outside the alphabet, wrong lengths and all strings of length <=2 must be rejected without touching the receiver.",
         "OIDs that encoding/asn1 itself cannot re-read (2.x arcs near 2^31) are outside the domain; known finding: the two DefaultFingerprinter functions differ.",
         "5/C17", "seqmc"),
 "C18": ("model_checking",
         "explicit-state BFS over operation sequences on the real Cache vs a reference map",
         "Every put/update/delete/expire/tick sequence over small key/time universes (incl. the constructor's boundary max==8*len*min) is executed on the real kademlia.Cache and compared with a reference map after every operation; states deduplicated by reference content + private bucket dump; exhaustive (closure) for the boundary configurations, depth-bounded for the TTL ones.",
         "Keys, times and TTLs outside the configured universes; cache values are opaque.",
         "5/C18", "seqmc"),
 "C19": ("model_checking",
         "exhaustive enumeration of cache contents x query keys and of short byte-string triples on the real code",
         "Every subset of a 10-key universe (x3 loci) and of an 8-key mixed-length universe is loaded into a real Cache and queried with every 1-byte key plus shorter/longer keys: ForEach must visit each entry once in non-decreasing XOR distance, Closest must be a minimum, ForEachCloser/ForEachMatching must equal the brute-force sets; DHTNode.ListNodeInfos/HandleGet.Closer/HandleFindNode likewise over every subset of 7 peers; the comparison laws over all triples (and quadruples for transitivity) of byte strings of length <= 2 over {00,01,7f,80,ff}.",
         "Longer keys and larger contents than the enumerated universes (the code is length-generic: loops over bytes).",
         "5/C19", "seqmc"),
 "C01": ("model_checking",
         "controlled-scheduler exploration (preemption-bounded DFS with happens-before state caching) of two concurrent Tells through every in-memory swarm stack",
         "For each in-memory stack (mem, frag, mbapp with and without fast path, string/varint/uintN mux, multiswarm, mapswarm, wlswarm, p2pkeswarm and nestings) two sender threads (same node or different nodes) Tell self-describing payloads of boundary sizes (0, 1, part-1, part, part+1, 2*part, MTU) as two-slice IOVecs and overwrite their buffers as soon as Tell returns; receiver callbacks hold the message across scheduling points, re-check it and scribble over it. Every schedule within the preemption bound is executed on the instrumented real code and every delivered (Src,Dst,Payload) must equal a told message of that source addressed to that node.",
         "Payload contents are patterns, not arbitrary bytes; for p2pke stacks the handshake runs deterministically before the explored phase; UDP/QUIC/SSH stacks are outside the scheduler (not covered by this check).",
         "5/C01", "gosched"),
 "C02": ("model_checking",
         "explicit-state BFS: adversary closure over real p2pke.Session objects (deliver anything to anyone, mutations, expiry, counter jump)",
         "Universes: the honest pair; the honest pair plus an unrelated pair holding the same long-term keys (cross-session traffic); the honest pair with 8 byte-level mutations (counter flips, body/tag flips, truncation, header-only, extension, header splicing) within a deviation budget; the counter-limit universe (outbound counter moved to MaxNonce-2 through a hook). Every transition re-executes the real Session: accepted application data must be a payload the transcript-sharing peer sent on that very session and not delivered before; (session,counter) -> ciphertext must be single-valued for everything produced under the send cipher; no plaintext marker may appear in any emitted message; counters stay within [16, MaxNonce); an expired session must refuse. Closures are exhaustive except the counter-limit universe (depth-bounded).",
         "Cryptographic primitives are trusted; Channel-level rotation and concurrent Send are not yet part of this check.",
         "5/C02", "seqmc"),
 "C03": ("model_checking",
         "exhaustive enumeration of bounded Dolev-Yao attack scripts against real honest Sessions (attacker implements the wire protocol by hand)",
         "Honest sessions of a and b in both roles; an attacker with key e that relays any honest handshake message to any honest session, crafts InitHello with genuine/stolen/mismatched claims under its own ephemeral, answers honest initiators with RespHello claiming e's, a's or b's key signed with its own signature, a wrong-purpose signature, an empty one or any signature captured from other handshakes, and continues with InitDone / RespDone / data under the keys it derived. Every script up to depth 3 (quick) / 4 (thorough) is executed; after every single delivery each honest session that IsReady, accepts data or agrees to Send must report e's key or the key of an honest party owning a session with the same channel binding; early data must not change state.",
         "Signature unforgeability; the crafting menu is the attacker alphabet; longer scripts.",
         "5/C03", "seqmc"),
 "C04": ("model_checking",
         "exhaustive enumeration of usage/adversary scripts on p2pkeswarm over the in-memory transport (instrumented code, deterministic schedule) + free-running attacker-sequence enumeration for sshswarm and quicswarm",
         "p2pkeswarm: honest A (each whitelist: all, only-B, none), B and an attacker E with its own key plus a raw foothold on the transport; every script up to depth 3 (quick) / 4 (thorough) of Tells to right and wrong identity@address combinations, peers telling A, and replays of the last captured packets from the raw address and from E's address: every delivered message must carry the identity (and in-handler LookupPublicKey key) of the owner of the transport address it came from and a payload that owner told; payloads addressed to identity X never reach a node without X's key; whitelisted-out peers get nothing delivered. sshswarm: every list of up to 3 (4) client authentication steps over {E valid, E bad signature, V-pubkey bad signature, E soft failure, V-pubkey soft failure} against the real server; quicswarm: three attacker TLS configurations; both: an honest dial of identity V at E's address must fail and deliver nothing.",
         "The SSH/QUIC rows run free (real sockets on loopback, goroutines outside the scheduler): fault_enumeration strength for those stacks, waits use multi-second timeouts only to give up, never to accuse.",
         "5/C04", "gosched"),
 "C05": ("model_checking",
         "exhaustive enumeration of adversary scripts (depth/deviation bounded DFS) over real p2pke.Channel objects with virtual time, from the initial and from established states",
         "Channel X under test with each acceptance predicate (accept-all, reject-all, only-b, only-e) and honest channels B and E; the adversary starts Sends in any order (simultaneous initiation, two RNG seeds for both tie-break outcomes), delivers any captured packet to any plausible target (X's packets to B or E), duplicates, drops, fires timers and restarts B, for every script up to depth 6 (quick) / 8 (thorough), also starting from scripted established sessions (X dialled B, B dialled X) so that rekey handshakes diverted to another key are reached. Whenever X's Send returns nil, X delivers data or emits a data-range ciphertext the remote key must satisfy the predicate; X's RemoteKey never changes; a foreign-key handshake inside the keep-alive window leaves the established session able to carry a probe each way.",
         "Scheduling inside Channel handlers is deterministic; scripts beyond the depth bound.",
         "5/C05", "gosched"),
 "C06": ("model_checking",
         "explicit-state BFS closure over emit/deliver/drop/duplicate/reorder/reflect actions on a genuine Session pair + fair suffix from every reachable state",
         "All reachable states of (handshake indices, counters, pool of genuine messages, delivered data) under every schedule of emit / deliver-to-either-side / drop / send are enumerated to closure on real Sessions; on every transition: no panic, the handshake index never decreases, IsReady never reverts, Handshake() is idempotent and byte-stable; from every reached state the fair suffix (each side's current handshake message delivered once more in sequence) must make both sides ready and the very next data message each way must be delivered.",
         "At most two data messages per direction; genuine messages only.",
         "5/C06", "seqmc"),
 "C07": ("model_checking",
         "exhaustive enumeration of adversarial prefix scripts over a real Channel pair followed by a deterministic fair suffix in virtual time; deterministic steady-state grid",
         "Prefixes: every script up to depth 7 (quick) / 9 (thorough) of start-Send-on-either-side, deliver / drop / duplicate any in-flight packet (reordering), fire the earliest timer and (one scenario) restart the peer, with two RNG seeds for the simultaneous-initiation tie-break; then the network becomes reliable (in-order prompt delivery, timers only when idle) and every pending Send must return within 8 x HandshakeBackoff of virtual time. Steady state: three (rekey, keep-alive, reject) configurations x traffic period x one/both directions x phase offsets run for 3 x RejectAfter: no Send may fail or outlive a traffic period, every payload must arrive and a side that keeps receiving must not emit more InitHellos than the rekey interval explains.",
         "Handlers run atomically (deterministic scheduling); p2pkeswarm-level convergence is not yet included. Known findings: two peer-restart histories converge only after the 120/180 s timers or never.",
         "5/C07", "gosched"),
 "C08": ("fault_enumeration",
         "exhaustive enumeration of crafted packet sequences (through the real entry path, deterministic schedule on the instrumented code) and of boundary-complete input grids for every parser/handler",
         "Sequences of <=2 (quick) / <=3 (thorough) packets over per-layer header-field alphabets (every field over {0,1,boundary-1,boundary,boundary+1,max}, bodies shorter/equal/longer than declared, packets sharing an id so that later ones contradict earlier ones) are injected by a raw peer into fragswarm, mbapp (fast path on/off), the five multiplexers (tells and asks) and p2pkeswarm; a panic in any library goroutine, more than 64 MiB allocated, a killed worker process or a valid message no longer being delivered afterwards is a violation. Grids: all demux functions, six address parsers, PeerID.UnmarshalText, x509.ParsePublicKey (every single-byte mutation/truncation of a valid key), the QUIC frame reader, DHT handlers, and p2pke Sessions/Channels fed every genuine message with every byte zeroed/incremented/truncated at every handshake stage.",
         "Longer sequences and field values outside the alphabets; QUIC/SSH stacks only through their parsers.",
         "5/C08", "gosched"),
 "C09": ("model_checking",
         "exhaustive configuration x length grid on the real stacks (instrumented code, deterministic schedule)",
         "For mem, frag (3 inner MTUs x 5 declared MTUs around 255 parts), mbapp (fast path on/off; 65535-part boundary in thorough), five mux kinds x channel ids (empty/1/127/128-byte strings; 0,127,128,2^14,2^63,2^64-1), p2pke, multi-transport swarms with equal and different MTUs and three nestings, every payload length in {0,1,MTU-1,MTU,MTU+1,MTU+2,2*MTU} and around each layer's part-count boundaries is told and (where offered) asked: at or below MTU() no error satisfying IsErrMTUExceeded may come from any layer and what is delivered must be the complete payload; above MTU() the call must fail with the MTU error and nothing may be delivered.",
         "UDP/QUIC/SSH are outside the scheduler; stacks whose handshake does not fit the inner MTU are not configured. Known finding: multiswarm over transports with different MTUs.",
         "5/C09", "gosched"),
 "C10": ("model_checking",
         "exhaustive enumeration (deviation-bounded DFS under the controlled scheduler) of fragment delivery orders, duplications and losses with the harness as the inner transport of the real fragswarm/mbapp",
         "Genuine fragments of 2-4 messages (2 and 3 parts, equal part counts, same ids from different sources, several ids from one source) are captured from real sender instances; an adversary thread then delivers them to a real receiver instance in every order (quick) or every order within a reorder budget (largest thorough configurations), duplicating or dropping up to 1-3 fragments, with 1 or 2 receive workers; every payload the receiver yields must be byte-identical to a message of the source it is attributed to and a message that lost a fragment must never be delivered.",
         "Fragments are genuine; crafted inconsistent fragments belong to C08. Inner MTUs 40/64/115.",
         "5/C10", "gosched"),
 "C11": ("model_checking",
         "controlled-scheduler exploration of concurrent Asks, handler errors, oversized responses, close and cancellation on every ask-capable in-memory stack",
         "1-2 askers with 8-byte buffers and unique requests, 1-2 ServeAsk threads whose handler answers with tag-derived bytes of lengths 0/1/cap-1/cap/cap+1 or a negative value, plus a closer of the destination, a canceller and virtual deadlines; all schedules within the preemption bound; a successful Ask must return exactly the bytes one of its own handler invocations wrote (handler saw exactly the request and the asker's address), every other case must be an error, and no Ask may stay blocked once its context ended.",
         "QUIC and SSH ask paths are outside the scheduler; 8-byte asker buffers.",
         "5/C11", "gosched"),
 "C12": ("model_checking",
         "controlled-scheduler exploration of Close against blocked and late Receive/ServeAsk calls and an in-flight message on every in-memory stack",
         "Receivers and a ServeAsk caller block with non-expiring contexts, a peer has a message in flight, a closer calls Close (twice in thorough) and a late thread calls Receive/ServeAsk twice after Close returned; at quiescence (virtual timers fired up to the horizon) every such call must have returned non-nil, a late nil is success-after-close, a step-horizon inside a late call is a spin, no hand-off may be committed after Close returned, and every goroutine the stacks started must have exited after all swarms are closed.",
         "Set-up (threads reaching their blocking points) and tear-down run deterministically; the explored window is Close vs delivery vs late calls. UDP/QUIC/SSH stacks are outside the scheduler.",
         "5/C12", "gosched"),
 "C13": ("model_checking",
         "controlled-scheduler exploration (preemption-bounded stateless DFS) of the real TellHub/AskHub/Queue; porcupine as per-history oracle for Queue",
         "The real hubs.go/queue.go (channels, selects, sync.Once rewritten to scheduler-owned shims by the AST instrumenter) are driven by 1-2 producers, 1-2 receivers, cancellers, purger and closer; every schedule with <=2 (quick) / <=4 (thorough) preemptions is executed and its complete call/return/callback history checked against the rendezvous specification (exactly-once hand-off, success only after the callback finished, error only if unseen, cancelled callers not parked at quiescence, no stranded message while a live receiver waits) and, for Queue, linearizability against a bounded FIFO.",
         "Scheduling points at channel/select/lock/atomic operations (sequential consistency between them); udpswarm.Receive's cancellation is outside the scheduler (not yet covered).",
         "5/C13", "gosched"),
 "C20": ("model_checking",
         "exhaustive enumeration of environment answers (lazy choice tree) to the real iterative DHT operations",
         "For every operation (find/join/get/put), every initial peer subset, three keys and both MinAccepted settings, every behaviour of every contacted node (any subset of the universe incl. itself and a fabricated zero id as peer list, an error, an enormous repeated list; accept/refuse; no/valid/invalid value) is enumerated as a choice tree and each leaf is one complete run of the real DHTFindNode/DHTJoin/DHTGet/DHTPut, checked for at-most-once contact, termination, no panic and truthful results.",
         "Universe of 3 (quick) / 5 (thorough) real nodes plus one fabricated id; a node answers the same way if asked again.",
         "5/C20", "seqmc"),
}

NOT_YET = "check not built yet in this round (planned in DESIGN.md section 5)"

def main():
    checks = []
    for pid in ALL:
        if pid not in CHECKS:
            continue
        cat, tech, text, note, ref, engine = CHECKS[pid]
        checks.append({
            "property_id": pid,
            "quick_cmd": "bin/check %s quick" % pid,
            "thorough_cmd": "bin/check %s thorough" % pid,
            "evidence_file": "/verif/evidence/%s.json" % pid,
            "replay_cmd_template": "bin/check %s --replay {path}" % pid,
            "engine": engine,
            "level_claimed": {"category": cat, "text": text, "design_ref": "DESIGN.md " + ref},
            "level_note": note,
            "technique": tech,
        })
    man = {
        "version": 1,
        "setup_cmd": "bin/setup",
        "hooks": {
            "guard": "verif",
            "enable": "go build -tags verif -overlay <generated>: hook files from /verif/hooks and instrumented copies of repo files are injected through a build overlay; nothing guarded is committed to /repo",
            "baseline_off_cmd": "cd /repo && GOFLAGS=-mod=mod GOPROXY=off GOSUMDB=off GOTOOLCHAIN=local go test -json -vet=off -count=1 -timeout 25m ./...",
            "source_commits": [],
            "add_only": True,
        },
        "engines": [
            {"name": "seqmc", "path": "mc/seqmc", "serves_properties": [p for p in ALL if p in CHECKS and CHECKS[p][5] == "seqmc"],
             "kind_free_text": "explicit-state BFS / exhaustive grid enumeration driving the real sequential objects"},
            {"name": "gosched", "path": "mc/vrt + mc/explore + instr", "serves_properties": [p for p in ALL if p in CHECKS and CHECKS[p][5] == "gosched"],
             "kind_free_text": "AST instrumenter + cooperative scheduler + preemption-bounded stateless DFS over the real concurrent code"},
        ],
        "checks": checks,
        "not_applicable": [{"property_id": p, "reason": NOT_YET} for p in ALL if p not in CHECKS],
        "notes": "All checks rebuild their harness from /repo's working tree on every invocation (bin/check). Known genuine defects are listed in known_findings.json.",
    }
    json.dump(man, open("/verif/MANIFEST.json", "w"), indent=1)
    print("MANIFEST.json written: %d checks, %d not yet" % (len(checks), len(man["not_applicable"])))

main()
