#!/usr/bin/env python3
"""Write a `go build -overlay` file.
plain mode: every /verif/hooks/<pkg>/<f>.go is added to /repo/<pkg>/ as zz_verif_<f>.go.
instr mode: additionally runs the instrumenter, which writes rewritten copies of the
concurrency-relevant repo files into <work>/instr and prints the replacement map."""
import json, os, subprocess, sys
out, work, mode, cid = sys.argv[1:5]
repl = {}
hooks = '/verif/hooks'
repo = os.environ.get('VERIF_REPO', '/repo')
for root, _, files in os.walk(hooks):
    for f in files:
        if f.endswith('.go'):
            rel = os.path.relpath(root, hooks)
            repl[os.path.join(repo, rel, 'zz_verif_' + f)] = os.path.join(root, f)
if mode == 'instr':
    r = subprocess.run(['/verif/.bin/instr', '-repo', repo, '-out', os.path.join(work, 'instr')],
                       capture_output=True, text=True)
    if r.returncode != 0:
        sys.stderr.write(r.stdout + r.stderr)
        sys.exit(2)
    repl.update(json.loads(r.stdout))
json.dump({'Replace': repl}, open(out, 'w'), indent=1)
