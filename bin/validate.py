#!/usr/bin/env python3
import json, glob, sys
import jsonschema
ok = True
try:
    jsonschema.validate(json.load(open('/verif/MANIFEST.json')), json.load(open('/root/.vp/MANIFEST.schema.json')))
except Exception as e:
    ok = False; print('MANIFEST invalid:', e)
sch = json.load(open('/root/.vp/EVIDENCE.schema.json'))
for f in sorted(glob.glob('/verif/evidence/*.json')):
    try:
        jsonschema.validate(json.load(open(f)), sch)
    except Exception as e:
        ok = False; print(f, 'invalid:', str(e)[:300])
print('valid' if ok else 'INVALID')
sys.exit(0 if ok else 1)
